"""C07 - optional, variant and expected track the same state and value as the std types (clauses)."""
import re

from .. import astx
from .. import db as D
from .. import prog as P
from ..rules import sets as SP
from ..rules import rel, life as L
from witness import wit, c07 as gen

META = ("REL (relational operators of optional x optional / nullopt / value, variant, unexpected over the finite (engaged, "
        "index, ordering) domain: decides that clause completely, given a consistent element comparison), ROLE (the index "
        "constant that means 'has a value' is the same at every site of optional resp. expected; the error/empty role uses "
        "the other one), PAIR (variant: every construction of the union member is accompanied by the store of the same "
        "index; index() returns the stored index), VISIT (the index pack compared with index() is the pack used by get "
        "in the invoked branch), W-TYPES (constructibility/convertibility/assignability/triviality surface vs std)",
        ["clang 14 parser/sema (tetl-ast)", "g++ 12 / libstdc++ 12 <optional>/<variant> as oracle"])

# API-level roles: members that touch the *value* alternative; the others named here touch the empty/error alternative
ROLES = {
    "etl::optional": {"value": ("operator*", "operator->", "emplace", "value", "value_or", "<ctor>"), "other": ("reset",)},
    "etl::expected": {"value": ("operator*", "operator->", "emplace", "value", "value_or"), "other": ("error",)},
}
INDEXED = ("in_place_index", "index_v", "emplace", "get_if", "unchecked_get", "get", "in_place_index_t", "holds_alternative")


def index_sites(f):
    out = []
    for x in astx.all_exprs(f):
        if x.get("targs") and x.get("n") in INDEXED and re.fullmatch(r"\d+", x["targs"].strip()):
            out.append((x["n"], int(x["targs"]), x))
        if x.get("k") == "bin" and x["op"] in ("==", "!="):
            for s, o in ((x["l"], x["r"]), (x["r"], x["l"])):
                s0 = astx.strip_casts(s)
                if s0 is not None and s0.get("k") == "call" and astx.callee(s0)[0] == "index" and astx.int_value(o) is not None:
                    out.append(("index()" + x["op"], astx.int_value(o), x))
    return out


def role_rule(chk, db):
    n = 0
    for rq, roles in ROLES.items():
        if not db.rec_by_q.get(rq):
            chk.analysis_broken("ROLE: %s no longer exists" % rq)
            continue
        hv = [f for f in db.by_q.get(rq + "::has_value", [])]
        k = None
        for f in hv:
            for nm, val, node in index_sites(f):
                if nm == "index()==":
                    k = val
                elif nm == "index()!=":
                    k = 1 - val
        if k is None:
            chk.analysis_broken("ROLE: cannot derive the value index of %s from has_value()" % rq)
            continue
        chk.extra.setdefault("value_index", {})[rq] = k
        for f in db.funcs_of_record(rq):
            sites = [s for s in index_sites(f) if not s[0].startswith("index()")]
            if not sites:
                continue
            if f["n"] in roles["value"]:
                want_value = True
                # expected's tagged constructors: unexpect_t -> error role
                if f["n"] == "<ctor>" and any("unexpect" in p["ty"] for p in f["params"]):
                    want_value = False
            elif f["n"] in roles["other"]:
                want_value = False
            elif f["n"] == "<ctor>" and rq == "etl::expected":
                want_value = not any("unexpect" in p["ty"] for p in f["params"])
            else:
                continue
            construct = astx.sig(f)
            n += 1
            chk.instance("ROLE")
            bad = [s for s in sites if (s[1] == k) != want_value]
            chk.obligation("ROLE", construct, not bad, evaluations=len(sites))
            if bad:
                chk.violation("ROLE", construct, "index-role", "%s: `%s<%d>` is used where the %s alternative (index %s) is meant" % (
                    astx.loc(f, bad[0][2]), bad[0][0], bad[0][1], "value" if want_value else "empty/error",
                    k if want_value else "!= %d" % k), {"where": astx.loc(f)})
            else:
                chk.sample({"rule": "ROLE", "member": construct, "indices": [(s[0], s[1]) for s in sites], "value_index": k})
    if n < 18:
        chk.analysis_broken("ROLE: only %d indexed members found (floor 18)" % n)


def pair_rule(chk, db):
    """variant: C(this) and S(this._index) appear together and the index stored is the one constructed"""
    rq = "etl::variant"
    state = L.state_fields(db, rq)
    sigs = L.slot_signatures(db)
    n = 0
    for f in L.member_functions(db, rq):
        if f.get("defaulted") or f.get("deleted"):
            continue
        prog, b = L.build(db, f)
        paths, trunc = L.token_paths(prog, sigs, state)
        if not any(any(t.k == "C" and t.root == "this" for t in p) for p in paths):
            continue
        n += 1
        chk.instance("PAIR")
        bad = None
        for p in paths:
            for i, t in enumerate(p):
                if t.k == "C" and t.root == "this":
                    ss = [s for s in p if s.k == "S" and s.root == "this" and s.field in state]
                    if not ss and not any(x.k == "?" for x in p):
                        bad = (p, t, "no store of the index")
                        continue
                    # same index expression: construct_at(addressof(_union), index, ...) vs _index = cast(index.value)
                    call = t.info.get("call")
                    if call and len(call["a"]) >= 2 and ss:
                        idx_name = astx.show(astx.strip_casts(call["a"][1]), 40)
                        rhs = ss[-1].rhs
                        # a const local stands for its initialiser (`constexpr auto newIndex = ...decltype(index)::value`)
                        r0 = astx.strip_casts(rhs) if rhs is not None else None
                        hops = 0
                        while r0 is not None and r0.get("k") == "ref" and r0.get("d") == "local" and hops < 3:
                            hops += 1
                            init = None
                            for g in db.by_q.get((ss[-1].info or {}).get("func", ""), []):
                                for st in astx.walk_stmts(g.get("body")):
                                    if st.get("k") == "decl":
                                        for v in st["vars"]:
                                            if v.get("n") == r0["n"] and v.get("init") is not None:
                                                init = v["init"]
                            if init is None:
                                break
                            rhs = init
                            r0 = astx.strip_casts(init)
                        if rhs is not None and idx_name not in astx.show(rhs, 120):
                            bad = (p, t, "the stored index `%s` is not the constructed one `%s`" % (astx.show(rhs, 40), idx_name))
        chk.obligation("PAIR", astx.sig(f), bad is None)
        if bad:
            chk.violation("PAIR", astx.sig(f), "index-not-paired", "%s: %s (%s)" % (astx.loc(f, bad[1].info), bad[2], L.show_path(bad[0])),
                          {"where": astx.loc(f)})
    # index() returns the state field
    for f in db.by_q.get(rq + "::index", []):
        e = astx.strip_casts(P.T.one_line_return(f)) if hasattr(P, "T") else None
    if n < 4:
        chk.analysis_broken("PAIR: only %d constructing members of variant (floor 4)" % n)


def visit_rule(chk, db):
    """in the dispatcher reachable from etl::visit the pack compared with index() is the pack handed to get<>"""
    fs = [f for f in db.funcs if f["file"].startswith("_variant/visit") and ("visit" in f["n"])]
    n = 0
    for f in fs:
        cmp_packs, get_packs = set(), set()
        for x in astx.all_exprs(f):
            if x.get("k") == "bin" and x["op"] == "==":
                for s, o in ((x["l"], x["r"]), (x["r"], x["l"])):
                    has_index = any(y.get("k") == "call" and astx.callee(y)[0] == "index" for y in astx.walk_expr(s))
                    if has_index:
                        for y in astx.walk_expr(o):
                            if y.get("k") == "ref" and y.get("d") == "nttp":
                                cmp_packs.add(y["n"])
            if x.get("k") in ("ref", "mem") and x.get("n") in ("get", "unchecked_get", "index_v") and x.get("targs"):
                for nm in re.findall(r"[A-Za-z_]\w*", x["targs"]):
                    get_packs.add(nm)
        if not cmp_packs:
            continue
        n += 1
        chk.instance("VISIT")
        ok = cmp_packs <= get_packs
        if not ok:
            # the invoked branch may sit in a helper of the same header that receives the index sequence: a call that passes
            # the function's own `index_sequence<Is...>` parameter hands the compared pack on; the helper's get<> uses count
            seq_params = [p0["n"] for p0 in f["params"] if "index_sequence" in (p0.get("ty") or "") and any(
                re.search(r"\b%s\b" % re.escape(c), p0.get("ty") or "") for c in cmp_packs)]
            for x in astx.all_exprs(f):
                if x.get("k") != "call" or not any(astx.strip_casts(a) is not None and astx.strip_casts(a).get("k") == "ref" and
                                                     astx.strip_casts(a).get("n") in seq_params for a in x.get("a") or []):
                    continue
                hn = astx.callee(x)[0]
                for g in db.funcs:
                    if g["n"] == hn and g["file"] == f["file"] and g is not f and g.get("body") is not None and any(
                            y.get("k") in ("ref", "mem") and y.get("n") in ("get", "unchecked_get", "index_v") and y.get("targs")
                            for y in astx.all_exprs(g)):
                        ok = True
        chk.obligation("VISIT", astx.sig(f), ok)
        if not ok:
            chk.violation("VISIT", astx.sig(f), "index-pack-mismatch", "%s: index() is compared with %s but the invoked branch uses get<%s>" % (
                astx.loc(f), sorted(cmp_packs), sorted(get_packs)), {"where": astx.loc(f)})
    chk.extra["visit_dispatch_functions"] = n
    if n < 1:
        chk.analysis_broken("VISIT: the index dispatcher of etl::visit was not recognised")


def _strip_move(e):
    e = astx.strip_casts(e)
    while e is not None and e.get("k") == "call" and astx.callee(e)[0] in ("move", "forward") and len(e["a"]) == 1:
        e = astx.strip_casts(e["a"][0])
    if e is not None and e.get("k") == "paren":
        return _strip_move(e.get("e"))
    return e


def _is_ref(e, name):
    e = _strip_move(e)
    return e is not None and e.get("k") == "ref" and e.get("n") == name


def _engage_atoms(c, taken, src):
    """[(who, engaged)] known when condition c evaluates to `taken`; who in ('src', 'this')"""
    c = astx.strip_casts(c)
    if c is None:
        return []
    if c.get("k") == "paren":
        return _engage_atoms(c.get("e"), taken, src)
    if c.get("k") == "un" and c["op"] == "!":
        return _engage_atoms(c["e"], not taken, src)
    if c.get("k") == "bin" and c["op"] == "&&":
        return _engage_atoms(c["l"], True, src) + _engage_atoms(c["r"], True, src) if taken else []
    if c.get("k") == "bin" and c["op"] == "||":
        return _engage_atoms(c["l"], False, src) + _engage_atoms(c["r"], False, src) if not taken else []
    if _is_ref(c, src):
        return [("src", taken)]
    if c.get("k") == "un" and c["op"] == "*" and c["e"].get("k") == "this":
        return [("this", taken)]
    if c.get("k") == "call":
        nm, q, recv, kind = astx.callee(c)
        if nm in ("has_value", "operator bool") and kind == "member":
            if astx.is_this(recv):
                return [("this", taken)]
            if _is_ref(recv, src):
                return [("src", taken)]
    return []


def engage_rule(chk, db):
    """ENGAGE: a constructor / assignment of optional from another optional ends with the source's engagement state, and the
    source is only dereferenced where it was tested to hold a value (the conversion is total in std)."""
    n = 0
    for rq in ("etl::optional", "etl::optional<T &>"):
        for f in db.funcs:
            if f.get("record") != rq or f.get("body") is None or f["n"] not in ("<ctor>", "operator="):
                continue
            srcs = [p["n"] for p in f["params"] if "optional<" in p["ty"]]
            if len(srcs) != 1:
                continue
            src = srcs[0]
            construct = astx.sig(f)
            is_ctor = f["n"] == "<ctor>"
            n += 1
            chk.instance("ENGAGE")
            problems = []
            unknown = None
            fields = set(fd["n"] for fd in (db.record(rq) or {}).get("fields", []))

            def scan(e, st):
                """st = {'this':..,'src':..,'copied':bool}; returns list of problems for derefs"""
                out = []
                for x in astx.walk_expr(e, into_lambdas=True):
                    k = x.get("k")
                    deref = False
                    if k == "un" and x["op"] == "*" and _is_ref(x["e"], src):
                        deref = True
                    if k == "call":
                        nm, q, recv, kind = astx.callee(x)
                        if kind == "member" and nm in ("value", "operator*", "operator->") and _is_ref(recv, src):
                            deref = True
                        if kind == "member" and astx.is_this(recv):
                            if nm in ("emplace", "construct"):
                                st["this"] = "E"
                            elif nm == "reset":
                                st["this"] = "D"
                    if k == "mem" and x.get("arrow") and _is_ref(x.get("b"), src) and x.get("dk") != "field":
                        pass
                    if deref and st["src"] != "E":
                        out.append(x)
                    if k == "bin" and x["op"] == "=":
                        l = astx.strip_casts(x["l"])
                        r = _strip_move(x["r"])
                        if l is not None and l.get("k") == "mem" and astx.is_this(l.get("b")) and l.get("n") in fields:
                            if r is not None and r.get("k") == "mem" and _is_ref(r.get("b"), src) and r.get("n") == l.get("n"):
                                st["copied"] = True
                            elif r is not None and r.get("k") in ("nullptr",) or astx.int_value(r) == 0:
                                st["this"] = "D"
                            elif r is not None and r.get("k") == "call" and astx.callee(r)[0] == "addressof":
                                st["this"] = "E"
                            else:
                                st["this"] = "?"
                return out

            def init_alternatives():
                """states after the member initialisers (a conditional initialiser yields one state per arm)"""
                alts = [{"this": "D" if is_ctor else "?", "src": "?", "copied": False}]
                for ini in (f.get("inits") or []) if is_ctor else []:
                    e = ini.get("e")
                    if e is None or ini.get("field") not in fields:
                        continue
                    r = _strip_move(e)
                    args = r["a"] if r is not None and r.get("k") in ("construct", "initlist", "parenlist") else [r]
                    a0 = _strip_move(args[0]) if len(args) == 1 else None
                    arms = [(None, a0)]
                    if a0 is not None and a0.get("k") == "cond":
                        arms = [((a0["c"], True), _strip_move(a0["t"])), ((a0["c"], False), _strip_move(a0["f"]))]
                    nxt = []
                    for st0 in alts:
                        for cnd, val in arms:
                            st = dict(st0)
                            if cnd is not None:
                                for x in scan(cnd[0], st):
                                    problems.append(("unchecked-deref", "the member initialiser of `%s` dereferences `%s` without testing that it holds a value" % (ini.get("field"), src), x))
                                for who, v in _engage_atoms(cnd[0], cnd[1], src):
                                    st[who] = "E" if v else "D"
                            for x in scan(val, st) if val is not None else []:
                                problems.append(("unchecked-deref", "the member initialiser of `%s` dereferences `%s` without testing that it holds a value"
                                                 % (ini.get("field"), src), x))
                            if val is not None and val.get("k") == "mem" and _is_ref(val.get("b"), src) and val.get("n") == ini.get("field"):
                                st["copied"] = True
                            elif val is not None and val.get("k") == "call" and astx.callee(val)[0] == "addressof":
                                st["this"] = "E"
                            elif val is not None and (val.get("k") == "nullptr" or astx.int_value(val) == 0):
                                st["this"] = "D"
                            nxt.append(st)
                    alts = nxt
                return alts

            for p, st in [(p, dict(a)) for p in SP.paths(f["body"]) for a in init_alternatives()]:
                for ev in p:
                    if ev[0] == "cond":
                        for who, val in _engage_atoms(ev[1], ev[2], src):
                            st[who] = "E" if val else "D"
                        continue
                    for e in SP.event_exprs(ev):
                        for x in scan(e, st):
                            problems.append(("unchecked-deref", "`%s` dereferences the source without testing that it holds a value" % astx.show(x, 40), x))
                if st["copied"]:
                    continue
                if st["src"] == "?":
                    if not problems:
                        unknown = "a path never tests the engagement state of `%s`" % src
                    continue
                if st["this"] != st["src"]:
                    want = "engaged" if st["src"] == "E" else "empty"
                    have = {"E": "is engaged", "D": "is empty", "?": "keeps whatever state it had"}[st["this"]]
                    problems.append(("state", "on the path where the source is %s the target %s" % (want, have), None))
            # the source keeps its engagement state: [optional.ctor] / [optional.assign] move from `*rhs`, they do not reset rhs
            for x in astx.all_exprs(f, into_lambdas=True):
                if x.get("k") == "call":
                    nm, q, recv, kind0 = astx.callee(x)
                    r0 = astx.strip_casts(recv) if recv is not None else None
                    if nm in ("reset", "emplace", "swap") and r0 is not None and r0.get("k") == "ref" and r0.get("n") == src:
                        problems.append(("source-modified", "`%s` changes the engagement state of the source; a moved-from optional "
                                                            "still holds its (moved-from) value in std" % astx.show(x, 40), x))
                if x.get("k") == "bin" and x["op"] == "=" and astx.strip_casts(x["l"]) is not None and \
                        astx.strip_casts(x["l"]).get("k") == "ref" and astx.strip_casts(x["l"]).get("n") == src:
                    problems.append(("source-modified", "`%s` assigns to the source" % astx.show(x, 40), x))
            seen = set()
            uniq = []
            for kind, msg, node in problems:
                if (kind, msg) not in seen:
                    seen.add((kind, msg))
                    uniq.append((kind, msg, node))
            chk.obligation("ENGAGE", construct, (not uniq) if unknown is None or uniq else None)
            for kind, msg, node in uniq[:2]:
                chk.violation("ENGAGE", construct, kind, "%s: %s" % (astx.loc(f, node if isinstance(node, dict) else None), msg), {"where": astx.loc(f)})
            if not uniq and unknown:
                chk.unknown_instance("ENGAGE", construct, unknown)
    if n < 6:
        chk.analysis_broken("ENGAGE: only %d optional members take another optional (floor 6)" % n)


META_EXTRA = "ENGAGE (optional from optional: target ends in the source's engagement state; the source is dereferenced only where tested); PARAM."
META = (META[0] + " " + META_EXTRA, META[1])
META = (META[0] + ' SIB (cv/ref-qualified overloads of one member agree); INITFORM.', META[1])

META = (META[0] + ' REL evaluates optional and variant operators over a fourth element outcome, unordered (only != holds), because their operators are specified element-wise; TYPEDFUN (a comparison functor fixed to one template parameter is never applied to an operand declared with another; controls in fixtures/arith_pos.hpp); CONSTR (the requires-clause of optional::operator=(U&&), parsed as a boolean formula over the five standard atoms, implies the formula of [optional.assign]); L5 over the assignment operators of variant / optional (a self-assignment does not destroy the value it copies; analysis shared with C03).', META[1])

META = (META[0] + ' REFQMOVE (an rvalue-qualified accessor hands the member it returns or indexes on through etl::move).', META[1])


META = (META[0] + ' VISITCAT (visit hands each alternative to the visitor through the rvalue accessor of its by-value proxy, the only one that keeps the variant argument value category).', META[1])


META = (META[0] + ' REFQCAT (each cv/ref-qualified overload of and_then / or_else / value_or hands the stored value on with the value category of *this); PTRSWAP (optional<T&>::swap exchanges the pointers, never the referents).', META[1])


def run(chk, tier):
    db = D.load("checks")
    from ..rules import params as _PR
    _PR.check(chk, db, ['_optional/', '_variant/', '_expected/'], floor=40)
    from ..rules import sibs as _SB
    _SB.check(chk, db, ['_optional/', '_variant/', '_expected/'])      # SIB: cv/ref-qualified overloads of one member agree
    _SB.positive_control(chk)
    from ..rules import initform as _IF
    _IF.check(chk, db, ['_optional/', '_variant/', '_expected/'])      # INITFORM: forwarded packs direct-non-list-initialise
    from ..rules import iters as _ITY
    if _ITY.typed_functor_area(chk, db, ["_optional/", "_variant/", "_expected/"]) < 10:      # TYPEDFUN
        chk.analysis_broken("TYPEDFUN: fewer than 10 two-type-parameter templates in optional / variant / expected (floor 10)")
    _ITY.typed_functor_control(chk, D)
    from ..rules import extra10 as _X10
    if _X10.visit_category_area(chk, db, ['_variant/']) < 1:      # VISITCAT
        chk.unknown_instance('VISITCAT', 'etl::visit', 'no generic lambda that hands proxy values to the forwarded visitor found')
    from ..rules import extra12 as _X12
    if _X12.refq_category_area(chk, db, ['_optional/', '_variant/', '_expected/']) < 8:      # REFQCAT
        chk.analysis_broken('REFQCAT: fewer than 8 ref-qualified overloads that hand their value on (floor 8)')
    if _X12.pointer_swap_rule(chk, db) < 1:      # PTRSWAP
        chk.unknown_instance('PTRSWAP', 'etl::optional<T &>::swap', 'the reference specialisation of optional has no swap')
    constr_rule(chk, db)
    from ..rules import extra8 as _X8r
    if _X8r.refq_move_area(chk, db, ['_variant/', '_optional/', '_expected/']) < 6:      # REFQMOVE
        chk.analysis_broken('REFQMOVE: fewer than 6 rvalue-qualified accessors found (floor 6)')
    # L5 (shared with C03): a self-assignment does not destroy the value it is about to copy. Only the assignment operators of
    # the single-slot owners variant / optional storage are analysed here; the full lifecycle analysis is property C03
    from . import c03 as _c03
    from ..rules import life as _L
    _pdb = D.load("plain")
    _sg = _L.slot_signatures(_pdb)
    for _owner in [o for o in _c03.OWNERS if "variant" in o or "optional" in o]:
        _state = _L.state_fields(_pdb, _owner)
        if not _pdb.rec_by_q.get(_owner) or not _state:
            continue
        for _f in _L.member_functions(_pdb, _owner):
            if _f.get("special") in ("copy_assign", "move_assign"):
                _c03.analyse_function(chk, _pdb, _sg, _owner, _c03.OWNERS[_owner], _owner, _f, _state)
    nrel = rel.check(chk, db, ["_optional/optional.hpp", "_variant/variant.hpp", "_expected/unexpected.hpp"])
    if chk.rule_instances.get("REL", 0) < 22:      # operators found (an unmodelled body is UNKNOWN, not a lost subject)
        chk.analysis_broken("REL: only %d optional/variant operators modelled (floor 22)" % nrel)
    role_rule(chk, db)
    pair_rule(chk, db)
    visit_rule(chk, db)
    engage_rule(chk, db)
    tus, info = gen.generate(tier == "quick")
    res = wit.compile_many(tus, compiler="g++", jobs=16)
    total = 0
    for tu in tus:
        results, unattributed = res[tu.name]
        wit.judge(chk, "W-TYPES", tu, results, unattributed)
        chk.instance("W-TYPES:" + tu.name, len(tu.obl))
        total += len(tu.obl)
    if total < 400:
        chk.analysis_broken("W-TYPES: only %d obligations" % total)
    chk.assumptions += [
        "REL assumes the element comparison is a consistent total order",
        "values held after sequences of assignments are run-time values (e.g. variant::operator=(T&&) always destroying and "
        "re-constructing) and are not decided; lifecycle is property C03",
    ]


# ---- CONSTR: the constraint of optional::operator=(U&&) implies the standard's -----------------------------------------------
CONSTR_ATOMS = [
    (re.compile(r"^(etl::)?is_scalar(_v)?<T>(::value)?$"), "S"),
    (re.compile(r"^(etl::)?is_same(_v)?<T,(etl::)?(decay_t|remove_cvref_t)<U>>(::value)?$"), "E"),
    (re.compile(r"^(etl::)?is_same(_v)?<(etl::)?(decay_t|remove_cvref_t)<U>,T>(::value)?$"), "E"),
    (re.compile(r"^(etl::)?is_same(_v)?<optional(<T>)?,(etl::)?(decay_t|remove_cvref_t)<U>>(::value)?$"), "O"),
    (re.compile(r"^(etl::)?is_same(_v)?<(etl::)?(decay_t|remove_cvref_t)<U>,optional(<T>)?>(::value)?$"), "O"),
    (re.compile(r"^(etl::)?is_constructible(_v)?<T,U>(::value)?$"), "C"),
    (re.compile(r"^(etl::)?is_assignable(_v)?<T&,U>(::value)?$"), "A"),
]


def _parse_constraint(text):
    """boolean formula over atom texts: ('and', a, b) | ('or', a, b) | ('not', a) | ('atom', text); None if not parsed"""
    toks = re.findall(r"\(|\)|&&|\|\||!|\band\b|\bor\b|\bnot\b|[^\s()!&|]+(?:\s*<[^()]*?>)?(?:::value)?|\S", text)
    # re-join template argument lists that contain spaces / nested brackets: tokenise by hand instead
    toks = []
    i, n = 0, len(text)
    while i < n:
        ch = text[i]
        if ch.isspace():
            i += 1
        elif ch in "()":
            toks.append(ch)
            i += 1
        elif text.startswith("&&", i) or text.startswith("||", i):
            toks.append(text[i:i + 2])
            i += 2
        elif ch == "!":
            toks.append("!")
            i += 1
        else:
            j, depth = i, 0
            while j < n and (depth > 0 or not (text[j].isspace() or text[j] in "()!" or text.startswith("&&", j) or text.startswith("||", j))):
                if text[j] == "<":
                    depth += 1
                elif text[j] == ">":
                    depth -= 1
                j += 1
            w = text[i:j]
            toks.append({"and": "&&", "or": "||", "not": "!"}.get(w, w))
            i = j
    pos = [0]

    def peek():
        return toks[pos[0]] if pos[0] < len(toks) else None

    def take():
        pos[0] += 1
        return toks[pos[0] - 1]

    def p_or():
        a = p_and()
        while peek() == "||":
            take()
            a = ("or", a, p_and())
        return a

    def p_and():
        a = p_not()
        while peek() == "&&":
            take()
            a = ("and", a, p_not())
        return a

    def p_not():
        if peek() == "!":
            take()
            return ("not", p_not())
        if peek() == "(":
            take()
            a = p_or()
            if take() != ")":
                raise ValueError("unbalanced")
            return a
        t = take()
        if t is None or t in (")", "&&", "||"):
            raise ValueError("atom expected")
        return ("atom", re.sub(r"\s+", "", t))
    try:
        r = p_or()
        if pos[0] != len(toks):
            return None
        return r
    except (ValueError, IndexError):
        return None


def constr_rule(chk, db):
    """[optional.assign]/12: `optional& operator=(U&& v)` takes part in overload resolution only if is_constructible_v<T, U>,
    is_assignable_v<T&, U>, remove_cvref_t<U> is not optional, and not (T is a scalar and decay_t<U> is T). The last clause is
    what makes `o = {}` disengage a scalar optional (the braces must not bind to U = T). The member's requires-clause is parsed
    as a boolean formula over these five atoms; it must *imply* the standard's formula (taking part less often only costs a
    temporary, taking part where the standard forbids changes which assignment `o = {}` and `o = nullopt`-like calls select)."""
    fs = [f for f in db.funcs if f.get("record") == "etl::optional" and f["n"] == "operator=" and len(f["params"]) == 1
          and f["params"][0]["ty"].replace(" ", "") == "U&&"]
    if not fs:
        chk.analysis_broken("CONSTR: optional::operator=(U&&) no longer exists")
        return 0
    import itertools
    for f in fs:
        construct = astx.sig(f)
        chk.instance("CONSTR")
        text = f.get("trequires") or f.get("requires") or ""
        form = _parse_constraint(text) if text else None
        if form is None:
            chk.obligation("CONSTR", construct, None)
            chk.unknown_instance("CONSTR", construct, "requires-clause not recorded or not a boolean formula: %r" % text[:80])
            continue
        unknown = []

        def ev(t, env):
            if t[0] == "atom":
                for rx, name in CONSTR_ATOMS:
                    if rx.match(t[1]):
                        return env[name]
                unknown.append(t[1])
                return True
            if t[0] == "not":
                return not ev(t[1], env)
            a, b = ev(t[1], env), ev(t[2], env)
            return (a and b) if t[0] == "and" else (a or b)
        witness = None
        for vals in itertools.product((False, True), repeat=5):
            env = dict(zip("SEOCA", vals))
            std = env["C"] and env["A"] and not env["O"] and not (env["S"] and env["E"])
            if ev(form, env) and not std and witness is None:
                witness = env
        if unknown:
            chk.obligation("CONSTR", construct, None)
            chk.unknown_instance("CONSTR", construct, "constraint atom(s) outside the table: %s" % sorted(set(unknown))[:3])
            continue
        chk.obligation("CONSTR", construct, witness is None, evaluations=32)
        if witness:
            names = {"S": "T is a scalar", "E": "decay_t<U> is T", "O": "U is the optional itself", "C": "T is constructible from U",
                     "A": "T& is assignable from U"}
            chk.violation("CONSTR", construct, "takes-part-where-std-forbids",
                          "%s: the requires-clause `%s` admits the overload when %s, where [optional.assign] excludes it (for a scalar "
                          "T and U = T this makes `o = {}` assign a value-initialised T instead of disengaging)"
                          % (astx.loc(f), re.sub(r"\s+", " ", text)[:160],
                             ", ".join(("%s" if v else "not (%s)") % names[k] for k, v in witness.items())), {"where": astx.loc(f)})
    return len(fs)
