"""C04 - inplace_string matches std::string and is always null-terminated (clauses, DESIGN.md 5 C04)."""
import json

from .. import astx
from .. import db as D
from .. import prog as P
from .. import terms as T
from .. import spec as S
from ..rules import guard as G
from ..rules import rel, sig, slots
from . import c05, c08
from witness import winst

META = ("TERM (every store to the size representation is followed on every path by a store of Char(0) at exactly the "
        "new size; both layouts zero-initialise), SIZE (the value stored as size is proved <= capacity over the finite "
        "model space under the documented preconditions), SIG (default arguments/overloads vs libstdc++'s "
        "std::basic_string declarations), DELEG (search/compare members forward to the same-named view operation with "
        "all their parameters), REL (18 relational operators over the (lexicographic, size) ordering domain), W-INST "
        "(every member instantiates for 5 character types x capacities on both sides of the layout boundary)",
        ["clang 14 parser/sema (tetl-ast)", "g++ 12 (W-INST)", "libstdc++ 12 declarations (SIG oracle)",
         "bounded-model evaluator", "specs/contracts.json preconditions"])

STRING = "etl::basic_inplace_string"
SAME_NAME = ("find", "rfind", "find_first_of", "find_last_of", "find_first_not_of", "find_last_not_of", "starts_with",
             "ends_with", "contains", "compare")


def size_repr_field(db):
    """the member of the string that its size() observer reads (today `_storage`)."""
    out = set()
    for f in db.by_q.get(STRING + "::size", []):
        e = T.one_line_return(f)
        for x in astx.walk_expr(e):
            if x.get("k") == "mem" and astx.is_this(x.get("b")) and x.get("dk") == "field":
                out.add(x["n"])
    return out


def classify(nd, repr_fields):
    """'SZ' (store into the size representation), 'TZ' (store of 0 to an element), None"""
    if nd[0] != "effect":
        return None
    info = nd[2]
    ft = info.get("frame_this", "")
    if info.get("token") == "state" and any(ft == "this." + r or ft.startswith("this." + r + ".") for r in repr_fields):
        return "SZ"
    if info.get("stored_value") == 0 and "element_index" in info and ft == "this" and info.get("what") in (
            "write to member", "store through pointer"):
        return "TZ"
    return None


def path_events(prog, repr_fields):
    """token paths of (kind, info) for SZ/TZ events, structural enumeration as in LIFE."""
    paths = [[]]

    def walk(nodes, ps):
        live, done = ps, []
        for nd in nodes:
            if not live:
                break
            k = nd[0]
            if k == "effect":
                c = classify(nd, repr_fields)
                if c:
                    live = [p + [(c, nd[2])] for p in live]
                elif nd[2].get("opaque"):
                    live = [p + [("?", nd[2])] for p in live]
            elif k == "inline":
                l2, d2 = walk(nd[2], live)
                live = l2 + d2
            elif k == "branch":
                a_l, a_d = walk(nd[2], live)
                b_l, b_d = walk(nd[3], live)
                live, done = a_l + b_l, done + a_d + b_d
            elif k == "loop":
                a_l, a_d = walk(nd[2], live)
                live, done = live + a_l, done + a_d
            elif k == "ret":
                done += live
                live = []
            if len(live) + len(done) > 256:
                live, done = live[:128], done[:128]
        return live, done

    live, done = walk(prog, paths)
    return live + done


def terminator_rule(chk, db):
    repr_fields = size_repr_field(db)
    if not repr_fields:
        chk.analysis_broken("TERM: cannot derive the size representation of %s from size()" % STRING)
        return
    chk.extra["size_representation_field"] = sorted(repr_fields)
    members = [f for f in db.funcs if f.get("record") == STRING and not f.get("const")]
    n_sz = 0
    for f in members:
        for choice, prog, ctx, b in G.build_variants(db, f, {}, max_depth=4):
            construct = astx.sig(f) + G._variant_text(choice)
            paths = path_events(prog, repr_fields)
            if not any(any(k == "SZ" for k, _ in p) for p in paths):
                continue
            n_sz += 1
            chk.instance("TERM")
            bad = None
            unknown = None
            for p in paths:
                for i, (k, info) in enumerate(p):
                    if k != "SZ":
                        continue
                    size_t = info["frame_params"][0] if info.get("frame_params") else None
                    rest = p[i + 1:]
                    tz = [x for x in rest if x[0] == "TZ"]
                    if not tz:
                        if any(x[0] == "?" for x in rest):
                            unknown = "opaque call after the size store"
                        else:
                            bad = ("no-terminator", info, None)
                        continue
                    idx = tz[0][1].get("element_index")
                    if size_t is None or idx is None or T.has_unknown(size_t) or T.has_unknown(idx):
                        unknown = "size or terminator index not expressible"
                    elif P.simplify(size_t) != P.simplify(idx) and P.simplify(("cast", "u", idx)) != P.simplify(size_t) \
                            and strip_u(size_t) != strip_u(idx):
                        bad = ("wrong-index", info, (T.show(size_t), T.show(idx)))
            chk.obligation("TERM", construct, None if (unknown and not bad) else (bad is None))
            if bad:
                kind, info, extra = bad
                msg = "%s:%s: the size is stored without a following store of the terminator" % (info["file"], info["line"]) \
                    if kind == "no-terminator" else \
                    "%s:%s: size set to %s but the terminator is written at index %s" % (info["file"], info["line"], extra[0], extra[1])
                chk.violation("TERM", construct, kind, msg + " (in %s)" % f["q"], {"where": "%s:%s" % (info["file"], info["line"])})
            elif unknown:
                chk.unknown_instance("TERM", construct, unknown)
            else:
                chk.sample({"member": construct, "rule": "TERM", "paths_with_size_store": sum(1 for p in paths if any(k == "SZ" for k, _ in p))})
    if n_sz < 10:
        chk.analysis_broken("TERM: only %d members reach a store to the size representation (floor 10)" % n_sz)
    # (d) both layouts value-initialise their buffer
    for rq in [r["q"] for r in db.records if r.get("parent") == STRING]:
        rec = db.record(rq)
        for fd in rec["fields"]:
            ok = "nsdmi" in fd
            chk.instance("TERM-init")
            chk.obligation("TERM-init", "%s::%s" % (rq, fd["n"]), ok)
            if not ok:
                chk.violation("TERM-init", "%s::%s" % (rq, fd["n"]), "indeterminate",
                              "include/etl/%s:%s: layout member %s has no default member initialiser: a default-constructed "
                              "string is not an empty C string" % (rec["file"], fd["line"], fd["n"]), {})


def strip_u(t):
    while isinstance(t, tuple) and t[0] == "cast":
        t = t[2]
    return t


def size_bound_rule(chk, db_plain, table):
    """SIZE: at every store to the size representation the stored size is <= capacity."""
    repr_fields = size_repr_field(db_plain)
    members = [f for f in db_plain.funcs if f.get("record") == STRING and not f.get("const")
               and f.get("access") == "public"]
    n = 0
    for f in members:
        ent = None
        for e in table:
            try:
                if any(x is f for x in c05.select(db_plain, e)):
                    ent = e
            except Exception:
                pass
        sites = []

        def hook(builder, fr, out, info):
            ft = info.get("frame_this", "")
            if info.get("token") == "state" and any(ft == "this." + r for r in repr_fields) and info.get("frame_params"):
                size_t = info["frame_params"][0]
                t = ("cmp", "<=", size_t, T.var("cap(this)", "st"))
                info["size"] = T.show(size_t)
                sites.append(info)
                out.append(("oblige", t, dict(info, site=len(sites) - 1, what="size store")))
        for choice, _p, _c, _b in G.build_variants(db_plain, f, {}, max_depth=4):
            sites.clear()
            b = P.Builder(db_plain, max_depth=4)
            b.choice = dict(choice)
            b.effect_hook = hook
            prog, ctx = b.build(f)
            if not sites:
                continue
            assume = []
            if ent:
                try:
                    assume = [S.parse(ent["req"], f, ctx=T.TermCtx(f, db_plain))]
                except Exception:
                    assume = []
            for prm in f["params"]:
                if "basic_inplace_string<Char, Capacity" in prm["ty"] or prm["ty"].startswith("basic_inplace_string &"):
                    assume.append(("cmp", "<=", T.var("size(%s)" % prm["n"], "st"), T.var("cap(this)", "st")))
            atom_sorts = P.prog_atoms(prog)
            for a in assume:
                T.atoms(a, atom_sorts)
            entry = dict((k, v) for k, v in atom_sorts.items() if "#" not in k and "@" not in k and "(this." not in k)
            verdict = {}
            wit = {}
            nm = 0
            for sc in G.sort_choices(entry):
                atoms_i = dict((k, sc.get(k, v)) for k, v in entry.items())
                prog_i = G.inst_prog(prog, sc)
                invs = G.object_invariants(atoms_i) + G.variant_invariants(db_plain, choice) + [T.instantiate_sorts(a, sc) for a in assume]
                for m in T.models(atoms_i, invs, limit=200000):
                    nm += 1
                    tr = P.run(prog_i, m)
                    for ev in tr.events:
                        if ev[0] != "oblige":
                            continue
                        si = ev[1]["site"]
                        if ev[2] is False and not ev[3]:
                            verdict[si] = "REFUTED"
                            wit.setdefault(si, T.show_model(m))
                        elif ev[2] is None or (ev[2] is False and ev[3]):
                            verdict.setdefault(si, "UNKNOWN")
                            wit.setdefault(si, T.show_model(m))
                        else:
                            verdict.setdefault(si, "PROVED")
            for si, info in enumerate(sites):
                v = verdict.get(si, "PROVED")
                construct = "%s%s :: size := %s" % (astx.sig(f), G._variant_text(choice), info.get("size", "?"))
                n += 1
                chk.instance("SIZE")
                chk.obligation("SIZE", construct, True if v == "PROVED" else (None if v == "UNKNOWN" else False), evaluations=max(1, nm))
                if v == "REFUTED":
                    chk.violation("SIZE", construct, "exceeds-capacity",
                                  "%s:%s: size stored may exceed capacity(): witness %s" % (info["file"], info["line"], wit.get(si)),
                                  {"where": "%s:%s" % (info["file"], info["line"]), "witness": wit.get(si)})
                elif v == "UNKNOWN":
                    chk.unknown_instance("SIZE", construct, "not decidable for " + str(wit.get(si)))
    if n < 10:
        chk.analysis_broken("SIZE: only %d size stores analysed (floor 10)" % n)


def compare3_rule(chk, db):
    """CMP3 (shared with C08): a whole-string compare member that does not simply forward to the view (it tests sizes or
    calls traits compare itself) is evaluated over the nine (prefix order, size order) worlds: sign(prefix) if the common
    prefix differs, else sign(size)."""
    from . import c08 as _c08
    n = 0
    for f in db.funcs:
        if f.get("record") != STRING or f["n"] != "compare" or f.get("body") is None or len(f["params"]) != 1:
            continue
        stmts = f["body"].get("s") or []
        own = False
        for x in astx.all_exprs(f):
            if x.get("k") == "bin" and x["op"] in ("<", ">", "==", "!=", "<=", ">="):
                if any(y.get("k") == "call" and astx.callee(y)[0] in ("size", "length") for y in astx.walk_expr(x)):
                    own = True
            if x.get("k") == "call" and astx.callee(x)[0] == "compare" and len(x["a"]) == 3:
                own = True
        if not own:
            continue
        n += 1
        _c08.compare3_of(chk, f)
    return n


def same_name_delegation(chk, db):
    n = 0
    for f in db.funcs:
        if f.get("record") != STRING or f["n"] not in SAME_NAME or f.get("kind") != "method":
            continue
        body = f["body"]["s"] if f["body"].get("k") == "seq" else []
        rets = [s for s in astx.walk_stmts(f["body"]) if s.get("k") == "return" and s.get("e") is not None]
        if not rets:
            continue
        construct = astx.sig(f)
        n += 1
        chk.instance("DELEG")
        # the outermost call in the returned expression (through comparisons with 0 etc.)
        e = rets[-1]["e"]
        call = None
        for x in astx.walk_expr(e):
            if x.get("k") == "call":
                nm = astx.callee(x)[0]
                if nm in SAME_NAME or nm in ("compare",):
                    call = x
                    break
        if call is None:
            chk.unknown_instance("DELEG", construct, "no delegation call recognised")
            continue
        callee_name = astx.callee(call)[0]
        ok = callee_name == f["n"]
        used = set(x["n"] for x in astx.all_exprs(f) if x.get("k") == "ref" and x.get("d") == "param")
        missing = [p["n"] for p in f["params"] if p["n"] and p["n"] not in used]
        chk.obligation("DELEG", construct, ok and not missing)
        if not ok:
            chk.violation("DELEG", construct, "wrong-callee", "%s: %s forwards to `%s` instead of the same-named operation" % (
                astx.loc(f), f["n"], callee_name), {"where": astx.loc(f)})
        elif missing:
            chk.violation("DELEG", construct, "parameter-dropped", "%s: parameter(s) %s are not passed on" % (astx.loc(f), missing),
                          {"where": astx.loc(f)})
    if n < 40:
        chk.analysis_broken("DELEG: only %d search/compare members found (floor 40)" % n)


def clamp_rule(chk, db):
    """CLAMP: a length clamp `n > R.size() - p ? X : n` measures one object: the replacement X is a size of the same receiver
    R whose remaining length the test measured (the substring [p, p+n) of `str` is clamped with str.size(), not with size())."""
    n = 0
    for f in db.funcs:
        if f.get("record") != STRING or f.get("body") is None:
            continue
        for x in astx.all_exprs(f):
            if x.get("k") != "cond":
                continue
            c = astx.strip_casts(x["c"])
            if c is None or c.get("k") != "bin" or c["op"] not in (">", ">=", "<", "<="):
                continue
            sides = [astx.strip_casts(c["l"]), astx.strip_casts(c["r"])]
            var = [s0 for s0 in sides if s0 is not None and s0.get("k") == "ref"]
            rem = [s0 for s0 in sides if s0 is not None and s0.get("k") == "bin" and s0["op"] == "-"]
            if len(var) != 1 or len(rem) != 1:
                continue

            def size_recv(e):
                e = astx.strip_casts(e)
                if e is not None and e.get("k") == "call" and astx.callee(e)[0] in ("size", "length") and astx.callee(e)[3] == "member":
                    r = astx.strip_casts(astx.callee(e)[2])
                    return "this" if astx.is_this(r) else (r.get("n") if r is not None and r.get("k") == "ref" else astx.show(r, 30))
                return None
            measured = size_recv(rem[0]["l"])
            if measured is None:
                continue
            arms = [astx.strip_casts(x["t"]), astx.strip_casts(x["f"])]
            keep = [a for a in arms if a is not None and a.get("k") == "ref" and a.get("n") == var[0]["n"]]
            other = [a for a in arms if a not in keep]
            if len(keep) != 1 or len(other) != 1:
                continue
            repl = other[0]
            rr = size_recv(repl)
            if rr is None and repl is not None and repl.get("k") == "bin" and repl["op"] == "-":
                rr = size_recv(repl["l"])
            if rr is None:
                continue
            n += 1
            construct = "%s :: %s" % (astx.sig(f), astx.show(x, 70))
            chk.instance("CLAMP")
            ok = rr == measured
            # direction: the length is replaced exactly when it exceeds what is left (`n > rem ? X : n`, `n < rem ? n : X`)
            n_left = sides[0] is var[0]
            op = c["op"] if n_left else {">": "<", ">=": "<=", "<": ">", "<=": ">="}[c["op"]]
            kept_in_then = arms[0] is keep[0]
            if ok and ((op in (">", ">=")) == kept_in_then):
                chk.obligation("CLAMP", construct, False)
                chk.violation("CLAMP", construct, "clamp-direction", "%s: the length `%s` is replaced when it is %s than what is left of `%s` and kept "
                              "otherwise; a clamp replaces it when it is larger" % (astx.loc(f, x), var[0]["n"],
                                                                                     "smaller" if op in ("<", "<=") else "not larger", measured),
                              {"where": astx.loc(f)})
                continue
            chk.obligation("CLAMP", construct, ok)
            if not ok:
                chk.violation("CLAMP", construct, "clamp-other-object", "%s: the test measures what is left of `%s` but the length is replaced by the "
                              "size of `%s`" % (astx.loc(f, x), measured, rr), {"where": astx.loc(f)})
    # second form: the length handed to `view(O).substr(p, L)` mentions only sizes of O itself (whatever the clamp's spelling:
    # conditional, etl::min, helper-free local); lengths that mention no size are left to substr's own clamp
    nsub = 0
    for f in db.funcs:
        if f.get("record") != STRING or f.get("body") is None:
            continue
        local_init = {}
        for st in astx.walk_stmts(f.get("body")):
            if st.get("k") == "decl":
                for v in st["vars"]:
                    if v.get("init") is not None and "other" not in v:
                        local_init[v["n"]] = v["init"]

        def viewed(e, depth=0):
            """name of the object a view expression looks at: 'this', a parameter name, or None"""
            e = astx.strip_casts(e)
            if e is None or depth > 3:
                return None
            if e.get("k") == "ref" and e["n"] in local_init and e.get("d") == "local":
                return viewed(local_init[e["n"]], depth + 1)
            if e.get("k") in ("construct", "cast", "initlist") and len(e.get("a", [])) == 1:
                return viewed(e["a"][0], depth + 1)
            if e.get("k") == "un" and e.get("op") == "*" and astx.is_this(astx.strip_casts(e["e"])):
                return "this"
            if e.get("k") == "ref" and e.get("d") == "param":
                return e["n"]
            return None

        def sizes_in(e, depth=0, acc=None):
            acc = set() if acc is None else acc
            if e is None or depth > 3:
                return acc
            for y in astx.walk_expr(e):
                if y.get("k") == "call" and astx.callee(y)[0] in ("size", "length") and astx.callee(y)[3] == "member" and not y["a"]:
                    r = astx.strip_casts(astx.callee(y)[2])
                    acc.add("this" if (r is None or astx.is_this(r)) else (r.get("n") if r.get("k") == "ref" else astx.show(r, 30)))
                elif y.get("k") == "call" and astx.callee(y)[0] in ("size", "length") and not y["a"] and astx.callee(y)[3] != "member":
                    acc.add("this")
                elif y.get("k") == "ref" and y.get("d") == "local" and y["n"] in local_init:
                    sizes_in(local_init[y["n"]], depth + 1, acc)
            return acc
        for x in astx.all_exprs(f):
            if x.get("k") != "call" or astx.callee(x)[0] != "substr" or astx.callee(x)[3] != "member" or len(x["a"]) != 2:
                continue
            nsub += 1
            o = viewed(astx.callee(x)[2])
            if o is None:
                continue
            used = sizes_in(x["a"][1])
            if not used:
                continue
            n += 1
            construct = "%s :: %s" % (astx.sig(f), astx.show(x, 70))
            chk.instance("CLAMP")
            wrong = sorted(u for u in used if u != o)
            chk.obligation("CLAMP", construct, not wrong)
            if wrong:
                chk.violation("CLAMP", construct, "clamp-other-object", "%s: the length of a substring of `%s` is computed from the size of `%s`" % (
                    astx.loc(f, x), o, ", ".join(wrong)), {"where": astx.loc(f)})
    if nsub < 1:
        chk.analysis_broken("CLAMP: no substring of a view is formed in basic_inplace_string (the rule lost its subject)")


META_EXTRA = "SLOTS-W / SLOTS-U (grown characters written; range writes below the size slot); POST (size postconditions); NULFREE (no NUL-sensitive routine reachable from counted operations, overloads selected by argument kind); EXIT (early exits of the searches vs the specification's feasibility predicate); CLAMP (length clamps measure one object); PARAM."
META = (META[0] + " " + META_EXTRA, META[1])
META = (META[0] + ' SIB; IT4i (index-form downward scans reach index 0); RESUME (pattern searches move their candidate by one); CLAMP by viewed object.', META[1])
META = (META[0] + ' CLAMP direction; ERASECNT.', META[1])
META = (META[0] + ' ROTINS; BOUND over the const members; RWINDOW.', META[1])
META = (META[0] + ' IDXLOOP.', META[1])

META = (META[0] + ' CMP3 (a compare member that tests sizes or calls traits compare itself is evaluated over the nine (prefix order, size order) worlds); WRAP (a position argument, which may be npos, is bounded before anything is added to it).', META[1])

META = (META[0] + ' TRAITSORD (the ordering operations of the string order characters through Traits).', META[1])

META = (META[0] + ' FIRSTREAD and IT4i over the view searches the string forwards to.', META[1])

META = (META[0] + ' ALIASSTR (an argument that may refer to the string itself is never read after the string has been modified on that path).', META[1])


META = (META[0] + ' FIELDCAST (a value stored into the size member is converted to that member type, not to a fixed narrower type; controls in fixtures/extra10_pos.hpp).', META[1])


META = (META[0] + ' CHARCAST (the generic char_traits convert a character to a fixed narrow type only under is_same_v<char_type, char>).', META[1])


def run(chk, tier):
    db = D.load("checks")
    from ..rules import params as _PR
    _PR.check(chk, db, ['_string/basic_inplace_string', '_strings/find', '_strings/rfind'], floor=80)
    from ..rules import iters as _ITX
    _ITX.reverse_index_area(chk, db, ['_string/basic_inplace_string', '_strings/'])      # IT4i: downward index scans reach index 0
    _ITX.resume_area(chk, db, ['_string/basic_inplace_string', '_strings/find', '_strings/rfind'])      # RESUME: pattern searches try every candidate position
    _ITX.index_loop_area(chk, db, ['_string/basic_inplace_string'])      # IDXLOOP: index loops over the own elements stop before size()
    from ..rules import sibs as _SB
    _SB.check(chk, db, ['_string/basic_inplace_string', '_strings/find', '_strings/rfind'])      # SIB: cv/ref-qualified overloads of one member agree
    _SB.positive_control(chk)
    from ..rules import iters as _ITE
    _ITE.erase_count_area(chk, db, ['_string/basic_inplace_string'])      # ERASECNT: erase / erase_if return the number of erased elements
    _ITE.rotate_insert_area(chk, db, ['_string/basic_inplace_string'])      # ROTINS: append-then-rotate inserts rotate from the requested position
    plain = D.load("plain")
    with open(c05.SPEC) as fh:
        table = json.load(fh)["entries"]
    terminator_rule(chk, db)
    size_bound_rule(chk, plain, table)
    # POST: the size each mutating member leaves equals the specified one (callees by their own specification)
    npost = slots.check_post(chk, plain, ["basic_inplace_string"])
    if npost < 10:
        chk.analysis_broken("POST: only %d specified mutating members found (floor 10)" % npost)
    # SLOTS-W: a size store that may grow the string is on a path that writes the newly exposed characters
    slots.check(chk, plain, ["basic_inplace_string"], lambda r: False, only=("W", "U"))
    if chk.rule_instances.get("SLOTS-W", 0) < 4:
        chk.analysis_broken("SLOTS-W: only %d growing size stores found in basic_inplace_string (floor 4)" % chk.rule_instances.get("SLOTS-W", 0))
    same_name_delegation(chk, db)
    compare3_rule(chk, db)
    from ..rules import extra8 as _X8a
    if _X8a.alias_string_area(chk, db, STRING) < 30:      # ALIASSTR
        chk.analysis_broken('ALIASSTR: fewer than 30 members take a string or character pointer that may alias the string (floor 30)')
    from ..rules import exits as _EXF
    if _EXF.check_first_read(chk, D.load('plain')) < 4:      # FIRSTREAD (shared with C08): the searches the string forwards to
        chk.analysis_broken('FIRSTREAD: fewer than 4 searches that scan by themselves (floor 4)')
    from ..rules import iters as _ITR4
    _ITR4.reverse_index_area(chk, db, ['_string_view/', '_string/basic_inplace_string'])      # IT4i: downward index scans reach index 0
    from ..rules import extra8 as _X8
    if _X8.traits_order_area(chk, db, ['_string/basic_inplace_string.hpp']) < 8:      # TRAITSORD
        chk.analysis_broken('TRAITSORD: fewer than 8 ordering operations of basic_inplace_string found (floor 8)')
    from ..rules import extra10 as _X10
    if _X10.field_cast_area(chk, db, ['_string/']) < 1:      # FIELDCAST
        chk.unknown_instance('FIELDCAST', 'etl::basic_inplace_string', 'no direct store into the size member found')
    _X10.positive_controls(chk, D, ('FIELDCAST',))
    from ..rules import extra10 as _X10c
    _X10c.char_cast_area(chk, db, ('_string/char_traits.hpp',))      # CHARCAST (may match nothing: then the controls carry it)
    _X10c.char_cast_control(chk, D)
    from ..rules import exits as _EXW
    if _EXW.pos_wrap_area(chk, db, ['_string/', '_strings/', '_string_view/']) < 3:      # WRAP
        chk.analysis_broken('WRAP: fewer than 3 members that add to a position argument (floor 3)')
    clamp_rule(chk, db)
    from . import c02 as _c02
    _c02.string_read_sites(chk, plain)      # BOUND: read-only members form pointers within [0, size()]
    from ..rules import exits as _EXW
    _EXW.check_rwindow(chk, db)      # RWINDOW: the string's rfind overloads end in basic_string_view::rfind
    c08.exit_rule(chk, plain)      # inplace_string's searches are etl::strings::find / string_view members
    # NULFREE: counted operations never reach a routine that stops at a null character (embedded nulls are characters)
    c08.nulfree_rule(chk, db, STRING, 100)
    nrel = rel.check(chk, db, ["_string/basic_inplace_string.hpp"])
    if chk.rule_instances.get("REL", 0) < 16:      # operators found (an unmodelled body is UNKNOWN, not a lost subject)
        chk.analysis_broken("REL: only %d string relational operators modelled (floor 16)" % nrel)
    sig.check(chk, db, STRING, "std::basic_string", min_matched=100)
    ninst = winst.run_matrix(chk, "W-INST", "c04_inst", [x for x in winst.string_matrix(tier == "quick") if "inplace_string" in x[0]],
                             tier == "quick")
    chk.extra["functions_analysed"] = len([f for f in db.funcs if f.get("record") == STRING])
    chk.assumptions += [
        "contents after insert/replace/rotate and the values returned by searches are run-time values and are not decided",
        "TERM compares the terminator index with the stored size as terms; writes into the buffer through algorithms are "
        "not tracked beyond the size store that must follow them",
    ]
