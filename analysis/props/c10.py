"""C10 - integer <-> text conversion respects the buffer (buffer clause + error mapping; values are not claimed)."""
import re

from .. import astx
from .. import db as D
from .. import terms as T
from ..rules import bound as B
from ..rules import sets as SP

META = ("BOUND (every store of from_integer/to_chars through (str,length) and every read of to_integer/from_chars through the "
        "input view has a proved in-range index over the finite model space, for all option/signedness configurations), MAP "
        "(every enumerator of from_integer_error / to_integer_error is handled by to_chars / from_chars and mapped to the errc "
        "the standard specifies; on error from_chars returns ptr == first and does not store to value; to_chars returns last)",
        ["clang 14 parser/sema (tetl-ast)", "bounded-model evaluator"])

EXPECT = {
    "etl::from_chars": {"enum": "etl::strings::to_integer_error", "map": {"overflow": "result_out_of_range", "invalid_input": "invalid_argument"},
                        "error_ptr": 0},
    "etl::to_chars": {"enum": "etl::strings::from_integer_error", "map": {"overflow": "value_too_large"}, "error_ptr": 1},
}


def field_of(e, name):
    """designated-initialiser field value inside a construct/initlist expression"""
    for x in astx.walk_expr(e):
        if x.get("k") == "desig" and x["n"] == name:
            return x["e"]
    # positional: {ptr, ec}
    e0 = astx.strip_casts(e)
    items = None
    if e0 is not None and e0.get("k") in ("construct", "initlist"):
        items = e0["a"]
        if len(items) == 1 and items[0] is not None and items[0].get("k") == "initlist":
            items = items[0]["a"]
    if items and len(items) == 2:
        return items[0] if name == "ptr" else items[1]
    return None


def map_rule(chk, db):
    n = 0
    for q, spec in EXPECT.items():
        fs = [f for f in db.by_q.get(q, []) if not f.get("deleted")]
        en = db.enums.get(spec["enum"])
        if not fs or not en:
            chk.analysis_broken("MAP: %s or %s no longer exists" % (q, spec["enum"]))
            continue
        for f in fs:
            construct = astx.sig(f)
            n += 1
            chk.instance("MAP")
            handled = {}
            problems = []
            value_param = next((p["n"] for p in f["params"] if p["ty"].endswith("&") and "const" not in p["ty"]), None)
            ptr_param = f["params"][spec["error_ptr"]]["n"]
            for p in SP.normalised_paths(f["body"]):
                conds = []
                stored_value = False
                for ev in p:
                    if ev[0] == "cond":
                        for x in astx.walk_expr(ev[1]):
                            if x.get("k") == "bin" and x["op"] in ("==", "!="):
                                for s in (x["l"], x["r"]):
                                    s0 = astx.strip_casts(s)
                                    if s0 is not None and s0.get("k") == "ref" and s0.get("d") == "enum" and spec["enum"] in s0.get("q", ""):
                                        conds.append((s0["n"], (x["op"] == "==") == ev[2]))
                    if ev[0] == "expr":
                        e = ev[1]
                        if e.get("k") == "bin" and e["op"] == "=" and astx.strip_casts(e["l"]).get("n") == value_param:
                            stored_value = True
                    if ev[0] == "ret" and ev[1] is not None:
                        ec = field_of(ev[1], "ec")
                        ptr = field_of(ev[1], "ptr")
                        ecn = None
                        if ec is not None:
                            for x in astx.walk_expr(ec):
                                if x.get("k") == "ref" and x.get("d") == "enum":
                                    ecn = x["n"]
                        is_err = ecn is not None
                        pos = [c for c, t in conds if t]
                        neg = [c for c, t in conds if not t]
                        if is_err:
                            which = pos[-1] if pos else None
                            if which is None:
                                # error returned when "none" was excluded: covers every remaining enumerator
                                rest = [e_["n"] for e_ in en["enumerators"] if e_["n"] != "none" and e_["n"] not in neg] \
                                    if "none" in neg else []
                                for w in rest:
                                    handled[w] = ecn
                            else:
                                handled[which] = ecn
                            pn = astx.strip_casts(ptr).get("n") if ptr is not None and astx.strip_casts(ptr) is not None else None
                            if pn != ptr_param:
                                problems.append("error path returns ptr = `%s` (expected `%s`)" % (astx.show(ptr, 30), ptr_param))
                            if stored_value:
                                problems.append("`%s` is stored before an error is returned" % value_param)
            for e_ in en["enumerators"]:
                if e_["n"] == "none":
                    continue
                want = spec["map"].get(e_["n"])
                got = handled.get(e_["n"])
                if got is None:
                    problems.append("enumerator %s::%s is not mapped to an error code" % (spec["enum"].split("::")[-1], e_["n"]))
                elif want and got != want:
                    problems.append("%s is mapped to errc::%s (the standard specifies errc::%s)" % (e_["n"], got, want))
                elif not want:
                    problems.append("new enumerator %s has no specified mapping in the table" % e_["n"])
            chk.obligation("MAP", construct, not problems, evaluations=len(en["enumerators"]))
            for m in problems[:4]:
                wc = "error-ptr" if "returns ptr" in m else ("value-stored" if "is stored before" in m else ("unmapped" if "not mapped" in m else "wrong-errc"))
                chk.violation("MAP", construct, wc, "%s: %s" % (astx.loc(f), m), {"where": astx.loc(f)})
            if not problems:
                chk.sample({"rule": "MAP", "function": construct, "mapping": handled})
    if n < 2:
        chk.analysis_broken("MAP: to_chars/from_chars not found")


def bound_rule(chk, db):
    total = 0
    fs = db.by_q.get("etl::strings::from_integer", [])
    for f in fs:
        for sc, fx in (({"is_signed_v": True, "terminate_with_null": True}, {"Options.terminate_with_null": 1}),
                       ({"is_signed_v": True, "terminate_with_null": False}, {"Options.terminate_with_null": 0}),
                       ({"is_signed_v": False, "terminate_with_null": True}, {"Options.terminate_with_null": 1}),
                       ({"is_signed_v": False, "terminate_with_null": False}, {"Options.terminate_with_null": 0})):
            sites, n = B.decide(db, f, {"str": (lambda ctx: T.var("length", "u"), "str")}, static_conds=sc, fixed_atoms=fx)
            total += report(chk, f, sites, " {signed=%s,nul=%s}" % (sc["is_signed_v"], sc["terminate_with_null"]))
    for f in db.by_q.get("etl::strings::to_integer", []):
        for sc in ({"skip_whitespace": True, "signed_integral": True}, {"skip_whitespace": False, "signed_integral": False},
                   {"skip_whitespace": False, "signed_integral": True}):
            sites, n = B.decide(db, f, {"str": (lambda ctx: T.size_of("str", ctx), "str")}, static_conds=sc)
            total += report(chk, f, sites, " {ws=%s,signed=%s}" % (sc["skip_whitespace"], sc["signed_integral"]))
    if total < 12:
        chk.analysis_broken("BOUND: only %d conversion buffer accesses analysed (floor 12)" % total)


def report(chk, f, sites, suffix):
    n = 0
    for sid, s in sorted(sites.items()):
        construct = "%s :: %s%s" % (astx.sig(f), sid, suffix)
        n += 1
        chk.instance("BOUND")
        chk.obligation("BOUND", construct, True if s.verdict == "PROVED" else (None if s.verdict == "UNKNOWN" else False),
                       evaluations=max(1, s.reached))
        if s.verdict == "REFUTED":
            chk.violation("BOUND", construct, "out-of-bounds", "%s:%s: %s may be out of bounds: index %s, bound %s; witness %s" % (
                s.info["file"], s.info["line"], s.info["what"], s.info["index"], s.info["bound"], s.witness),
                {"where": "%s:%s" % (s.info["file"], s.info["line"]), "witness": s.witness})
        elif s.verdict == "UNKNOWN":
            chk.unknown_instance("BOUND", construct, s.witness or "")
        chk.sample({"site": construct, "verdict": s.verdict, "index": s.info["index"], "bound": s.info["bound"]})
    return n


KERNEL_FILES = ("_strings/from_integer.hpp", "_strings/to_integer.hpp", "_charconv/", "_string/to_string.hpp")


def neg_rule(chk, db):
    """NEG: a conversion kernel never negates (unary minus / abs) a value of the caller's signed integer type without first
    reducing it (% or /) or converting it to an unsigned type: for the type's minimum the negation is undefined behaviour
    and the digits that follow are wrong. Taint: integral parameters and locals copied from them."""
    n = 0
    for f in db.funcs:
        if f.get("body") is None or not any(k in f["file"] for k in KERNEL_FILES):
            continue
        tparams = set(tp["n"] for tp in (f.get("tparams") or []))
        tainted = set(p0["n"] for p0 in f["params"] if p0["ty"].replace("const ", "").strip() in tparams)
        if not tainted:
            continue

        def is_tainted(e):
            e0 = e
            while e0 is not None and e0.get("k") in ("cast", "paren"):
                if e0.get("k") == "cast" and ("unsigned" in (e0.get("ty") or "") or "make_unsigned" in (e0.get("ty") or "") or
                                               (e0.get("ty") or "").startswith("U") or "size_t" in (e0.get("ty") or "")):
                    return False
                e0 = e0.get("e")
            if e0 is None:
                return False
            k = e0.get("k")
            if k == "ref":
                return e0["n"] in tainted
            if k == "bin" and e0["op"] in ("%", "/", "<", ">", "<=", ">=", "==", "!=", "&&", "||"):
                return False
            if k == "bin":
                return is_tainted(e0["l"]) or is_tainted(e0["r"])
            if k == "un" and e0["op"] in ("-", "+"):
                return is_tainted(e0["e"])
            if k == "cond":
                return is_tainted(e0["t"]) or is_tainted(e0["f"])
            return False
        # propagate through declarations / assignments (two rounds are enough for these straight-line kernels)
        for _ in range(2):
            for st in astx.walk_stmts(f["body"]):
                if st.get("k") == "decl":
                    for v in st["vars"]:
                        if "other" not in v and v.get("init") is not None and is_tainted(v["init"]) and "unsigned" not in v["ty"]:
                            tainted.add(v["n"])
        sites = []
        for x in astx.all_exprs(f):
            if x.get("k") == "un" and x["op"] == "-" and is_tainted(x["e"]):
                sites.append(x)
            if x.get("k") == "call" and astx.callee(x)[0] in ("abs", "labs", "llabs") and x["a"] and is_tainted(x["a"][0]):
                sites.append(x)
        n += 1
        construct = astx.sig(f)
        chk.instance("NEG")
        chk.obligation("NEG", construct, not sites)
        for x in sites[:2]:
            chk.violation("NEG", construct, "negates-minimum", "%s: `%s` negates a value of the caller's integer type; for the "
                          "minimum of a signed type this overflows" % (astx.loc(f, x), astx.show(x, 50)), {"where": astx.loc(f)})
    if n < 3:
        chk.analysis_broken("NEG: only %d conversion kernels with an integral parameter found (floor 3)" % n)


def castsign_rule(chk, db):
    """CASTSIGN: a conversion front end hands the caller's integer to the kernel in its own type: the value parameter is never
    static_cast to a fixed (or conditionally fixed) signed type - for an unsigned 64-bit argument above the signed maximum that
    changes the value that is formatted."""
    import re as _re
    signed_tok = _re.compile(r"(?<!unsigned )\b(long long|long|int|short|signed char|intmax_t|ptrdiff_t|ssize_t)\b")
    n = 0
    for f in db.funcs:
        if f.get("body") is None or not any(k in f["file"] for k in KERNEL_FILES):
            continue
        tparams = set(tp["n"] for tp in (f.get("tparams") or []))
        tainted = set(p0["n"] for p0 in f["params"] if p0["ty"].replace("const ", "").strip() in tparams)
        if not tainted:
            continue
        aliases = {}
        for st in astx.walk_stmts(f["body"]):
            if st.get("k") == "decl":
                for v in st["vars"]:
                    if v.get("other") == "TypeAlias":
                        aliases[v["n"]] = v.get("ty") or ""
        n += 1
        construct = astx.sig(f)
        chk.instance("CASTSIGN")
        bad = None
        for x in astx.all_exprs(f):
            if x.get("k") != "cast":
                continue
            inner = x.get("e")
            while inner is not None and inner.get("k") == "paren":
                inner = inner.get("e")
            if inner is None or inner.get("k") != "ref" or inner.get("n") not in tainted:
                continue
            ty = (x.get("ty") or "").replace("const ", "").strip()
            seen = 0
            while ty in aliases and seen < 4:
                ty = aliases[ty]
                seen += 1
            if ty in tparams or "make_unsigned" in ty or ty.startswith("unsigned") or ty in ("bool",):
                continue
            if signed_tok.search(ty):
                bad = (x, ty)
                break
        chk.obligation("CASTSIGN", construct, bad is None)
        if bad:
            chk.violation("CASTSIGN", construct, "value-converted-to-signed", "%s: `%s` converts the caller's value to `%s`; an unsigned value above "
                          "the signed maximum of that type is formatted as a negative number" % (astx.loc(f, bad[0]), astx.show(bad[0], 50), bad[1]),
                          {"where": astx.loc(f)})
    if n < 3:
        chk.analysis_broken("CASTSIGN: only %d conversion functions with an integral value parameter (floor 3)" % n)


def ovfchk_rule(chk, db):
    """OVFCHK: in the parsing kernel every accumulation `v = v * base (+|-) digit` is reached only on paths on which the overflow
    test for exactly (v, digit) was evaluated and was false. A test that is conjoined with another condition (short-circuit)
    or skipped on some path leaves the multiplication unguarded."""
    n = 0
    for f in db.funcs:
        if f.get("body") is None or not f["file"].startswith("_strings/to_integer"):
            continue
        accs = []
        for x in astx.all_exprs(f, into_lambdas=False):
            if x.get("k") == "bin" and x["op"] == "=" and astx.strip_casts(x["l"]).get("k") == "ref":
                v = astx.strip_casts(x["l"])["n"]
                if any(y.get("k") == "bin" and y["op"] == "*" and astx.strip_casts(y["l"]).get("k") == "ref" and astx.strip_casts(y["l"]).get("n") == v
                       for y in astx.walk_expr(x["r"])):
                    accs.append((x, v))
        if not accs:
            continue
        construct = astx.sig(f)
        n += 1
        chk.instance("OVFCHK")
        bad = None

        def facts_false(c, taken):
            """calls known to have returned false when c evaluated to `taken`"""
            c = astx.strip_casts(c)
            if c is None:
                return []
            if c.get("k") == "un" and c["op"] == "!":
                return facts_false(c["e"], not taken)
            if c.get("k") == "bin" and c["op"] == "||" and not taken:
                return facts_false(c["l"], False) + facts_false(c["r"], False)
            if c.get("k") == "call" and not taken:
                return [c]
            return []

        for p in SP.paths(f["body"]):
            known = []
            for ev in p:
                if ev[0] == "cond":
                    known += facts_false(ev[1], ev[2])
                for e in SP.event_exprs(ev):
                    for acc, v in accs:
                        if any(y is acc for y in astx.walk_expr(e)):
                            ok = any(len(c["a"]) >= 1 and any(astx.strip_casts(a) is not None and astx.strip_casts(a).get("k") == "ref"
                                                              and astx.strip_casts(a).get("n") == v for a in c["a"]) for c in known)
                            if not ok and bad is None:
                                bad = acc
                if ev[0] == "backedge-cond":
                    known = []
        chk.obligation("OVFCHK", construct, bad is None)
        if bad is not None:
            chk.violation("OVFCHK", construct, "unguarded-accumulation", "%s: `%s` is reachable on a path on which no overflow test of the accumulator "
                          "has been evaluated to false (a test conjoined with another condition does not count)" % (
                              astx.loc(f, bad), astx.show(bad, 60)), {"where": astx.loc(f)})
    if n < 1:
        chk.analysis_broken("OVFCHK: no accumulating parse loop found in _strings/to_integer.hpp")


def ovfconst_rule(chk, db):
    """OVFCONST: the overflow checkers compare with limit / base and |limit % base| - the only thresholds for which
    `value > q or (value == q and digit > r)` is exactly "value * base + digit does not fit" (for the signed checker the
    accumulator is negative: min / base and |min % base|). Decided on the arithmetic skeleton of the initialisers."""
    from ..rules import intfb as _IFB

    def mentions_base(e):
        return any(x.get("k") in ("mem", "ref") and "base" in (x.get("n") or "").lower() for x in astx.walk_expr(e))

    def limval(e):
        """a base-free expression of the *unsigned* checker, evaluated for 8/16/32/64-bit Int: 'max' when it is the
        largest value for every width, ('value', {...}) when it is something else, None when it is not understood"""
        if e is None or mentions_base(e):
            return None
        vals = {}
        for w in (8, 16, 32, 64):
            try:
                vals[w] = _IFB.eval_expr(e, w, tparam=tp_name[0])
            except _IFB.NM:
                return None
        if all(v == (1 << w) - 1 for w, v in vals.items()):
            return "max"
        w = [w for w, v in sorted(vals.items()) if v != (1 << w) - 1][0]
        return ("value", "0x%x for a %d-bit type (the largest value is 0x%x)" % (vals[w], w, (1 << w) - 1))
    tp_name = ["Int"]

    def sk(e):
        if unsigned_now[0]:
            v = limval(e)
            if v is not None:
                return v
        return sk0(e)

    def sk0(e):
        e = astx.strip_casts(e)
        if e is None:
            return None
        k = e.get("k")
        if k in ("initlist", "construct", "parenlist") and len(e.get("a", [])) == 1:
            return sk(e["a"][0])
        if k == "paren":
            return sk(e.get("e"))
        if k == "call":
            nm = astx.callee(e)[0]
            if nm in ("max", "min", "lowest") and not e["a"]:
                return "max" if nm == "max" else "min"
            if nm == "abs" and len(e["a"]) == 1:
                return ("abs", sk(e["a"][0]))
            return None
        if k in ("mem", "ref") and "base" in (e.get("n") or "").lower():
            return "base"
        if k == "un" and e["op"] == "-":
            return ("neg", sk(e["e"]))
        if k == "bin" and e["op"] in ("/", "%", "+", "-", "*"):
            return (e["op"], sk(e["l"]), sk(e["r"]))
        if astx.int_value(e) is not None:
            return astx.int_value(e)
        return None
    spec = {"unsigned_overflow_checker": ("max", ("/", "max", "base"), [("%", "max", "base")]),
            "signed_overflow_checker": ("min", ("/", "min", "base"), [("abs", ("%", "min", "base")), ("neg", ("%", "min", "base"))])}
    n = 0
    unsigned_now = [False]
    for rq, (lim, wdiv, wmods) in spec.items():
        rec = db.record("etl::strings::detail::" + rq)
        if rec is None:
            chk.analysis_broken("OVFCONST: %s no longer exists" % rq)
            continue
        n += 1
        construct = "etl::strings::detail::" + rq
        chk.instance("OVFCONST")
        unsigned_now[0] = rq.startswith("unsigned")
        tps_ = [tp["n"] for tp in (rec.get("tparams") or []) if tp.get("k") == "type"]
        tp_name[0] = tps_[0] if tps_ else "Int"
        div = [dict(fd, init=fd["nsdmi"]) for fd in rec["fields"] if "div" in fd["n"].lower() and "nsdmi" in fd]
        mod = [dict(fd, init=fd["nsdmi"]) for fd in rec["fields"] if "mod" in fd["n"].lower() and "nsdmi" in fd]
        if not div and not mod:
            # the thresholds may be set by the constructor's member initialisers instead
            ctors = [f for f in db.funcs if f.get("record") == construct and f["n"] == "<ctor>" and f.get("inits") and f.get("params")]
            if len(ctors) == 1:
                for it in ctors[0]["inits"]:
                    fld = (it.get("field") or "").lower()
                    if "div" in fld:
                        div.append({"n": it["field"], "line": it.get("line"), "init": it["e"]})
                    elif "mod" in fld:
                        mod.append({"n": it["field"], "line": it.get("line"), "init": it["e"]})
        bad = None
        unknown = None
        if len(div) != 1 or len(mod) != 1:
            unknown = "the quotient / remainder thresholds are not two members with an initialiser"
        else:
            d_, m_ = sk(div[0]["init"]), sk(mod[0]["init"])

            def has_none(t):
                return t is None or (isinstance(t, tuple) and t[0] != "value" and any(has_none(x) for x in t[1:]))
            if (d_ != wdiv and has_none(d_)) or (m_ not in wmods and has_none(m_)):
                unknown = "a threshold initialiser is not understood"
            elif d_ != wdiv:
                bad = (div[0], d_, wdiv)
            elif m_ not in wmods:
                bad = (mod[0], m_, wmods[0])
        chk.obligation("OVFCONST", construct, False if bad else (None if unknown else True))
        if bad:
            chk.violation("OVFCONST", construct, "threshold", "include/etl/%s:%s: `%s` is initialised with %s; the exact threshold is %s" % (
                rec["file"], bad[0]["line"], bad[0]["n"], bad[1], bad[2]), {"where": rec["file"]})
        elif unknown:
            chk.unknown_instance("OVFCONST", construct, unknown)
    return n


def ovfpred_rule(chk, db):
    """OVFPRED: the overflow predicate itself. With q = limit / base and r = |limit % base|, `value * base + digit` leaves the
    type exactly when value is beyond q, or equals q and digit > r (beyond = greater for the unsigned accumulator, smaller
    for the negative signed one). The checker's `operator()(value, digit)` is evaluated over the six orderings
    (value <, =, > q) x (digit <=, > r) and compared with that table."""
    n = 0
    for rq, beyond in (("unsigned_overflow_checker", ">"), ("signed_overflow_checker", "<")):
        fs = [f for f in db.funcs if f.get("record") == "etl::strings::detail::" + rq and f["n"] == "operator()" and f.get("body") is not None]
        rec = db.record("etl::strings::detail::" + rq)
        if not fs or rec is None:
            chk.analysis_broken("OVFPRED: %s::operator() no longer exists" % rq)
            continue
        f = fs[0]
        if len(f["params"]) != 2:
            continue
        vname, dname = f["params"][0]["n"], f["params"][1]["n"]
        div = [fd["n"] for fd in rec["fields"] if "div" in fd["n"].lower()]
        mod = [fd["n"] for fd in rec["fields"] if "mod" in fd["n"].lower()]
        n += 1
        construct = astx.sig(f)
        chk.instance("OVFPRED")
        ret = None
        for st in (f["body"].get("s") or []):
            if st.get("k") == "return":
                ret = st.get("e")

        class NM(Exception):
            pass

        def name(e):
            e = astx.strip_casts(e)
            if e is None:
                return None
            if e.get("k") in ("ref", "mem"):
                return e.get("n")
            return None

        def truth(e, vo, do):
            """vo in '<=>' (value vs q), do in ('le', 'gt') (digit vs r)"""
            e = astx.strip_casts(e)
            while e is not None and e.get("k") == "paren":
                e = astx.strip_casts(e.get("e"))
            if e is None:
                raise NM()
            if e.get("k") == "un" and e["op"] == "!":
                return not truth(e["e"], vo, do)
            if e.get("k") == "bin" and e["op"] in ("&&", "||"):
                a, b = truth(e["l"], vo, do), truth(e["r"], vo, do)
                return (a and b) if e["op"] == "&&" else (a or b)
            if e.get("k") == "bin" and e["op"] in ("<", "<=", ">", ">=", "==", "!="):
                l, r, op = name(e["l"]), name(e["r"]), e["op"]
                flip = {"<": ">", "<=": ">=", ">": "<", ">=": "<=", "==": "==", "!=": "!="}
                if l in div + mod:
                    l, r, op = r, l, flip[op]
                if l == vname and r in div:
                    return {"<": vo == "<", "<=": vo in "<=", ">": vo == ">", ">=": vo in ">=", "==": vo == "=", "!=": vo != "="}[op]
                if l == dname and r in mod:
                    if op == ">":
                        return do == "gt"
                    if op == "<=":
                        return do == "le"
                    raise NM()      # digit == r is not distinguished from digit < r in this domain
            raise NM()
        def run_body(st, vo, do):
            """the checker's body: straight-line `if (c) return a;` statements and a final `return b;`"""
            for s0 in (st.get("s") or [] if st.get("k") == "seq" else [st]):
                if s0 is None or s0.get("k") == "null":
                    continue
                if s0.get("k") == "return":
                    return truth(s0.get("e"), vo, do)
                if s0.get("k") == "if" and s0.get("c") is not None:
                    br = s0.get("then") if truth(s0["c"], vo, do) else s0.get("else")
                    if br is not None:
                        r = run_body(br, vo, do)
                        if r is not None:
                            return r
                    continue
                raise NM()
            return None

        bad = None
        unknown = False
        for vo in "<=>":
            for do in ("le", "gt"):
                try:
                    got = run_body(f["body"], vo, do)
                except NM:
                    unknown = True
                    break
                if got is None:
                    unknown = True
                    break
                want = (vo == beyond) or (vo == "=" and do == "gt")
                if got != want and bad is None:
                    bad = (vo, do, got)
            if unknown:
                break
        if unknown or ret is None:
            chk.obligation("OVFPRED", construct, None)
            chk.unknown_instance("OVFPRED", construct, "the predicate is not a combination of comparisons of (value, digit) with the two thresholds")
            continue
        chk.obligation("OVFPRED", construct, bad is None, evaluations=6)
        if bad:
            vo, do, got = bad
            chk.violation("OVFPRED", construct, "overflow-predicate", "%s: with value %s limit / base and digit %s |limit %% base| the checker answers %s; "
                          "`value * base + digit` %s" % (astx.loc(f), {"<": "<", "=": "==", ">": ">"}[vo], "<=" if do == "le" else ">",
                                                         str(got).lower(), "fits" if got else "does not fit"), {"where": astx.loc(f)})
    return n


def buflen_rule(chk, db):
    """BUFLEN: when a formatting front end hands a local array to the kernel as (pointer, length), the length is the array's
    extent (the extent expression itself, `sizeof` / `size` of the array). A larger length lets the kernel write behind the
    array; a smaller one reports value_too_large although the digits fit (the exact-fit case of the property)."""
    import re
    n = 0
    for f in db.funcs:
        if f.get("body") is None or not any(f["file"].startswith(p) for p in ("_string/to_string", "_charconv/", "_cstdlib/", "_strings/")):
            continue
        arrays = {}
        for st in astx.walk_stmts(f["body"]):
            if st.get("k") == "decl":
                for v in st["vars"]:
                    m = re.match(r"^(?:const )?[\w:]+\s*\[(.+)\]$", (v.get("ty") or "").strip())
                    if "other" not in v and m:
                        arrays[v["n"]] = m.group(1).replace(" ", "")
        if not arrays:
            continue
        for x in astx.all_exprs(f, into_lambdas=True):
            if x.get("k") != "call" or len(x["a"]) < 2:
                continue
            for i, a in enumerate(x["a"][:-1]):
                a0 = astx.strip_casts(a)
                arr = None
                if a0 is not None and a0.get("k") == "call" and astx.callee(a0)[0] in ("data", "begin") and len(a0["a"]) == 1:
                    r0 = astx.strip_casts(a0["a"][0])
                    arr = r0.get("n") if r0 is not None and r0.get("k") == "ref" else None
                elif a0 is not None and a0.get("k") == "ref":
                    arr = a0.get("n")
                if arr not in arrays:
                    continue
                ln = astx.strip_casts(x["a"][i + 1])
                if ln is None or ln.get("k") in ("call",) and astx.callee(ln)[0] in ("end", "next"):
                    continue        # (first, last) form: not a length
                lt = (x["a"][i + 1].get("ty") or ln.get("ty") or "")
                if ln.get("k") not in ("ref", "bin", "int", "call", "sizeof", "cast"):
                    continue
                if ln.get("k") == "ref" and ln.get("d") in ("local", "param") and ln.get("n") not in (arrays[arr],):
                    continue        # a run-time length (the caller's count): not the array's extent
                n += 1
                label = "%s :: `%s`" % (astx.sig(f), astx.show(x, 60))
                chk.instance("BUFLEN")
                txt = astx.show(ln, 60).replace(" ", "").strip("()")
                ok = txt == arrays[arr] or txt in ("sizeof(%s)" % arr, "etl::size(%s)" % arr, "size(%s)" % arr)
                chk.obligation("BUFLEN", label, ok)
                if not ok:
                    chk.violation("BUFLEN", label, "length-not-extent", "%s: the array `%s[%s]` is handed over with the length `%s`" % (
                        astx.loc(f, x), arr, arrays[arr], astx.show(ln, 40)), {"where": astx.loc(f)})
                break
    return n


def sign_rule(chk, db):
    """SIGN: a formatting kernel that can emit '-' emits it on every path on which the value may be negative (std::to_chars
    writes the sign for every base). Facts come from the tests on the path: `v < 0` false or an unsigned type excuse it."""
    n = 0
    for f in db.funcs:
        if f.get("body") is None or not any(k in f["file"] for k in KERNEL_FILES):
            continue
        def stores_minus(e):
            for x in astx.walk_expr(e, into_lambdas=True):
                if x.get("k") == "bin" and x["op"] == "=":
                    r = astx.strip_casts(x["r"])
                    if r is not None and r.get("k") in ("char", "int") and str(r.get("v")) in ("45", "'-'", "-"):
                        return True
            return False
        if not any(stores_minus(e) for e in [x for x in astx.all_exprs(f)]):
            continue
        tparams = set(tp["n"] for tp in (f.get("tparams") or []))
        vals = [p0["n"] for p0 in f["params"] if p0["ty"].replace("const ", "").strip() in tparams]
        if not vals:
            continue
        v = vals[0]
        n += 1
        construct = astx.sig(f)
        chk.instance("SIGN")
        bad = None
        npaths = 0
        for p in SP.paths(f["body"]):
            npaths += 1
            excused = False
            wrote = False
            digits = False
            for ev in p:
                if ev[0] == "cond":
                    c = astx.strip_casts(ev[1])
                    txt = astx.show(c, 80)
                    if "is_signed" in txt or "is_unsigned" in txt:
                        if ("is_signed" in txt and ev[2] is False) or ("is_unsigned" in txt and ev[2] is True):
                            excused = True
                    # v < 0 (not taken) or v >= 0 / v == 0 (taken): not negative on this path
                    if c is not None and c.get("k") == "bin" and astx.strip_casts(c["l"]) is not None and \
                            astx.strip_casts(c["l"]).get("k") == "ref" and astx.strip_casts(c["l"])["n"] == v and astx.int_value(c["r"]) == 0:
                        if (c["op"] == "<" and ev[2] is False) or (c["op"] in (">=", "==", ">") and ev[2] is True):
                            excused = True
                for e in SP.event_exprs(ev):
                    if stores_minus(e):
                        wrote = True
                    # the digit loop: a store of a computed character
                    for x in astx.walk_expr(e):
                        if x.get("k") == "bin" and x["op"] == "=" and astx.strip_casts(x["l"]) is not None and \
                                astx.strip_casts(x["l"]).get("k") == "idx" and not stores_minus(x) and \
                                astx.strip_casts(x["r"]).get("k") in ("cond", "bin"):
                            digits = True
            if digits and not wrote and not excused and bad is None:
                bad = p
        chk.obligation("SIGN", construct, bad is None, evaluations=npaths)
        if bad is not None:
            conds = [("%s is %s" % (astx.show(ev[1], 40), "true" if ev[2] else "false")) for ev in bad if ev[0] == "cond"][:4]
            chk.violation("SIGN", construct, "sign-dropped", "%s: digits are produced without a '-' on a path on which `%s` may be negative (%s)" % (
                astx.loc(f), v, "; ".join(conds)), {"where": astx.loc(f)})
    if n < 1:
        chk.analysis_broken("SIGN: no formatting kernel that emits '-' found")


def parse_rule(chk, db):
    """PARSE: the parsing front ends hand the work to `to_integer<X, options>` with (a) X the type they deliver -- their return
    type, or the type of the reference they store the value through -- because overflow is detected at X's limits (parsing in a
    wider type and narrowing the result moves the limits), and (b) the white-space option the standard gives them:
    from_chars does not skip leading white space ([charconv.from.chars]); strto*, sto*, ato* do ([c.strings], strtol)."""
    import re
    n = 0
    for f in db.funcs:
        if f.get("body") is None or not any(f["file"].startswith(p) for p in ("_charconv/", "_cstdlib/", "_string/sto")):
            continue
        calls = [x for x in astx.all_exprs(f, into_lambdas=True) if x.get("k") == "call" and astx.callee(x)[0] == "to_integer"]
        if not calls:
            continue
        aliases = {}
        consts = {}
        for st in astx.walk_stmts(f["body"]):
            if st.get("k") == "decl":
                for v in st["vars"]:
                    if v.get("other") == "TypeAlias":
                        aliases[v["n"]] = v.get("ty") or ""
                    elif "other" not in v and v.get("init") is not None:
                        consts[v["n"]] = v["init"]
        def norm(t):
            return re.sub(r"\s+", " ", (t or "").replace("const ", "").replace("&", "").replace("etl::", "")).strip()
        delivered = set()
        if norm(f.get("ret")) not in ("", "auto", "void") and "result" not in norm(f.get("ret")):
            delivered.add(norm(f.get("ret")))
        for p0 in f["params"]:
            if p0["ty"].strip().endswith("&") and "const" not in p0["ty"]:
                delivered.add(norm(p0["ty"]))
        for c in calls:
            n += 1
            construct = "%s :: `%s`" % (astx.sig(f), astx.show(c, 50))
            chk.instance("PARSE")
            targs = [t.strip() for t in _split_targs(c["f"].get("targs") or "")]
            bad = None
            x = norm(targs[0]) if targs else ""
            if not x:
                chk.obligation("PARSE", construct, None)
                chk.unknown_instance("PARSE", construct, "the parsed type is not spelled at the call")
                continue
            hops = 0
            while x in aliases and norm(aliases[x]) != x and hops < 4 and (norm(aliases[x]) in aliases or norm(aliases[x]) in delivered):
                x = norm(aliases[x])         # `using value_t = Int;` is only another name
                hops += 1
            if x in aliases:
                bad = "parses in `%s` = `%s`, an alias computed inside the function, not in the delivered type %s" % (
                    x, norm(aliases[x])[:60], sorted(delivered))
            elif delivered and x not in delivered:
                bad = "parses in `%s` but delivers %s: overflow is detected at the limits of `%s`" % (x, sorted(delivered), x)
            # white space option
            skip = True
            if len(targs) > 1:
                o = targs[1]
                init = consts.get(o)
                if init is None:
                    skip = None
                else:
                    for y in astx.walk_expr(init):
                        if y.get("k") == "desig" and y.get("n") == "skip_whitespace":
                            e0 = astx.strip_casts(y.get("e"))
                            skip = e0.get("v") if e0 is not None and e0.get("k") == "bool" else None
            want_skip = not f["file"].startswith("_charconv/")
            if bad is None and skip is not None and skip != want_skip:
                bad = "%s leading white space, the standard function %s" % ("skips" if skip else "does not skip", "does not" if skip else "does")
            chk.obligation("PARSE", construct, None if (bad is None and skip is None) else bad is None)
            if bad:
                chk.violation("PARSE", construct, "parse-configuration", "%s: %s %s" % (astx.loc(f, c), f["n"], bad), {"where": astx.loc(f)})
            elif skip is None:
                chk.unknown_instance("PARSE", construct, "the options argument is not a local constant")
    if n < 6:
        chk.analysis_broken("PARSE: only %d calls of to_integer found in the parsing front ends (floor 6)" % n)


def _split_targs(s):
    out, depth, cur = [], 0, ""
    for ch in s:
        if ch in "<({[":
            depth += 1
        elif ch in ">)}]":
            depth -= 1
        if ch == "," and depth == 0:
            out.append(cur)
            cur = ""
        else:
            cur += ch
    if cur.strip():
        out.append(cur)
    return out


META_EXTRA = "NEG (no negation of a possibly-minimum signed value); SIGN ('-' on every path that may format a negative value); CASTSIGN (no cast of the caller's value to a fixed signed type); OVFCHK (accumulation only after an unconditional overflow test); OVFCONST (exact thresholds limit / base, |limit % base|); OVFPRED (the overflow predicate evaluated over the six orderings of (value, digit) against the two thresholds); BUFLEN (a local array is handed to the kernel with its own extent as length); PARSE (front ends parse in the type they deliver, with the standard's white-space option); PARAM."
META = (META[0] + " " + META_EXTRA, META[1])
META = (META[0] + ' RETARG; SIBNAME (width siblings have one body).', META[1])
META = (META[0] + ' NEGMIN (the parsed magnitude is negated only on paths that exclude numeric_limits::min()); SHRNEG (digit quotient / remainder helpers do not replace a truncating division of a possibly negative value by an arithmetic shift); controls in fixtures/arith_pos.hpp; CHARCLASS (every <cctype> function the conversions read characters with is evaluated from its source for all 257 arguments against the "C" locale table).', META[1])


def run(chk, tier):
    from ..rules import params as _PR
    _PR.check(chk, D.load("checks"), ['_strings/from_integer', '_strings/to_integer', '_charconv/', '_string/to_string', '_cstdlib/'], floor=8)
    from ..rules import iters as _ITX
    _ITX.reverse_index_area(chk, D.load("checks"), ['_strings/from_integer', '_strings/to_integer', '_charconv/', '_string/to_string', '_string/sto', '_cstdlib/'])      # IT4i: downward index scans reach index 0
    db = D.load("plain")
    bound_rule(chk, db)
    map_rule(chk, db)
    neg_rule(chk, db)
    sign_rule(chk, db)
    castsign_rule(chk, db)
    ovfchk_rule(chk, db)
    ovfconst_rule(chk, db)
    ovfpred_rule(chk, db)
    if buflen_rule(chk, D.load("checks")) < 1:
        chk.unknown_instance("BUFLEN", "etl::detail::to_string", "no local array handed to a formatting kernel found")
    parse_rule(chk, D.load("checks"))
    charclass_rule(chk, D.load("checks"))
    from ..rules import iters as _ITG
    _ITG.retarg_area(chk, D.load("checks"), ['_string/sto', '_cstdlib/', '_charconv/'])      # RETARG: helper<X>() with X the caller's result type
    _ITG.sibname_area(chk, D.load("checks"), ['_string/sto', '_cstdlib/'])      # SIBNAME: strtol / strtoll, atoi / atol / atoll, ... have one body
    from ..rules import arith as _AR
    _cdb = D.load("checks")
    _scope = ['_strings/', '_charconv/', '_string/to_string', '_string/sto', '_cstdlib/', '_math/idiv', '_math/abs', '_math/ipow', '_math/ilog2']
    _AR.negmin_area(chk, _cdb, _scope)      # NEGMIN: the parsed magnitude is negated only after numeric_limits::min() is excluded
    _AR.shrneg_area(chk, _cdb, _scope)      # SHRNEG: quotient / remainder helpers do not shift possibly negative values
    _AR.positive_controls(chk, D, ("NEGMIN", "SHRNEG"))
    chk.assumptions += [
        "digits produced, values parsed, round trips and overflow detection at the type's limits are run-time values and are "
        "not decided by these clauses",
    ]


# ---- CHARCLASS: the character classes the conversions rely on are the C locale's ----------------------------------------------
def charclass_rule(chk, db):
    """to_integer / strto* / sto* / ato* skip `isspace` characters and read digits through isdigit / isalpha / tolower. Each
    <cctype> function is a pure function of one int: its body is evaluated from the source for every value -1 .. 255
    (comparisons, &&, ||, !, +, -, ?:, casts, boolean locals, straight-line if / return, calls of other <cctype> functions) and
    compared with the "C" locale's table ([cctype.syn], C17 7.4): truth value for the is* functions, value for tolower /
    toupper."""
    import string
    ref = {
        "isspace": lambda c: c in (0x20, 0x09, 0x0a, 0x0b, 0x0c, 0x0d),
        "isblank": lambda c: c in (0x20, 0x09),
        "isdigit": lambda c: 0x30 <= c <= 0x39,
        "isupper": lambda c: 0x41 <= c <= 0x5a,
        "islower": lambda c: 0x61 <= c <= 0x7a,
        "isalpha": lambda c: 0x41 <= c <= 0x5a or 0x61 <= c <= 0x7a,
        "isalnum": lambda c: 0x30 <= c <= 0x39 or 0x41 <= c <= 0x5a or 0x61 <= c <= 0x7a,
        "isxdigit": lambda c: 0x30 <= c <= 0x39 or 0x41 <= c <= 0x46 or 0x61 <= c <= 0x66,
        "iscntrl": lambda c: 0 <= c <= 0x1f or c == 0x7f,
        "isprint": lambda c: 0x20 <= c <= 0x7e,
        "isgraph": lambda c: 0x21 <= c <= 0x7e,
        "ispunct": lambda c: 0x21 <= c <= 0x7e and not (0x30 <= c <= 0x39 or 0x41 <= c <= 0x5a or 0x61 <= c <= 0x7a),
        "tolower": lambda c: c + 32 if 0x41 <= c <= 0x5a else c,
        "toupper": lambda c: c - 32 if 0x61 <= c <= 0x7a else c,
    }
    funcs = {}
    for g in db.funcs:
        if g["file"].startswith("_cctype/") and g.get("body") is not None and g["n"] in ref and len(g["params"]) == 1 and g.get("kind") == "function":
            funcs.setdefault(g["n"], g)

    class NM(Exception):
        pass

    class Ret(Exception):
        def __init__(self, v):
            Exception.__init__(self)
            self.v = v

    def ev(e, env, depth):
        e = astx.strip_casts(e)
        while e is not None and e.get("k") in ("construct", "initlist") and len(e.get("a", [])) == 1:
            e = astx.strip_casts(e["a"][0])
        if e is None or depth > 6:
            raise NM("empty")
        k = e.get("k")
        if k == "int":
            return int(e["v"])
        if k == "bool":
            return 1 if e["v"] else 0
        if k == "char":
            return int(e["v"])
        if k == "ref":
            if e["n"] in env:
                return env[e["n"]]
            raise NM("name `%s`" % e["n"])
        if k == "un" and e["op"] == "!":
            return 0 if ev(e["e"], env, depth) else 1
        if k == "un" and e["op"] == "-":
            return -ev(e["e"], env, depth)
        if k == "bin":
            op = e["op"]
            if op == "&&":
                return 1 if (ev(e["l"], env, depth) and ev(e["r"], env, depth)) else 0
            if op == "||":
                return 1 if (ev(e["l"], env, depth) or ev(e["r"], env, depth)) else 0
            a, b = ev(e["l"], env, depth), ev(e["r"], env, depth)
            if op in ("+", "-", "*", "|", "&", "^"):
                return {"+": a + b, "-": a - b, "*": a * b, "|": a | b, "&": a & b, "^": a ^ b}[op]
            if op in ("<", "<=", ">", ">=", "==", "!="):
                return 1 if {"<": a < b, "<=": a <= b, ">": a > b, ">=": a >= b, "==": a == b, "!=": a != b}[op] else 0
            raise NM("operator " + op)
        if k == "cond":
            return ev(e["t"] if ev(e["c"], env, depth) else e["f"], env, depth)
        if k == "call":
            nm = astx.callee(e)[0]
            if nm in funcs and len(e["a"]) == 1:
                return call(funcs[nm], ev(e["a"][0], env, depth), depth + 1)
            raise NM("call `%s`" % astx.show(e, 30))
        raise NM(astx.show(e, 30))

    def run(st, env, depth):
        if st is None:
            return
        k = st.get("k")
        if k == "seq":
            for s0 in st["s"]:
                run(s0, env, depth)
        elif k == "decl":
            for v in st["vars"]:
                if "other" not in v and v.get("init") is not None:
                    env[v["n"]] = ev(v["init"], env, depth)
        elif k == "return":
            raise Ret(ev(st["e"], env, depth))
        elif k == "if":
            br = st.get("then") if ev(st["c"], env, depth) else st.get("else")
            run(br, env, depth)
        elif k in ("null",):
            return
        elif k == "expr":
            ev(st["e"], env, depth)
        else:
            raise NM("statement " + str(k))

    def call(g, arg, depth):
        env = {g["params"][0]["n"]: arg}
        try:
            run(g["body"], env, depth)
        except Ret as r:
            return r.v
        raise NM("no return")
    n = 0
    for name in sorted(funcs):
        g = funcs[name]
        n += 1
        construct = astx.sig(g)
        chk.instance("CHARCLASS")
        bad = unknown = None
        for c in range(-1, 256):
            try:
                got = call(g, c, 0)
            except NM as ex:
                unknown = str(ex)
                break
            if name in ("tolower", "toupper"):
                want = ref[name](c)
                ok = got == want
            else:
                want = bool(ref[name](c))
                ok = bool(got) == want
            if not ok and bad is None:
                bad = (c, got, want)
        if unknown:
            chk.obligation("CHARCLASS", construct, None)
            chk.unknown_instance("CHARCLASS", construct, "not evaluated: " + unknown)
            continue
        chk.obligation("CHARCLASS", construct, bad is None, evaluations=257)
        if bad:
            c, got, want = bad
            chk.violation("CHARCLASS", construct, "class-table", "%s: %s(%d%s) is %s; in the \"C\" locale it is %s" % (
                astx.loc(g), name, c, (" = '\\x%02x'" % c) if c >= 0 else "", got, want), {"where": astx.loc(g)})
    if n < 6:
        chk.analysis_broken("CHARCLASS: only %d <cctype> functions found (floor 6)" % n)
    return n
