"""C01 - fixed-capacity vectors behave like std::vector within capacity (clauses, DESIGN.md 5 C01)."""
from .. import astx
from .. import db as D
from .. import prog as P
from .. import terms as T
from ..rules import slots
from ..rules import sets as SP
from ..rules import guard as G
from ..rules import rel, life as L
from . import c03
from witness import wit, winst, c01 as gen

META = ("CAP (capacity()/max_size()/full() of every vector/storage reduce to the non-type template parameter or a literal and "
        "read no data member; witnesses: capacity usable as a template argument, size type adequate at the 255/256/65535/65536 "
        "boundaries), TRY (try_push_back/try_emplace_back: in every model with size == capacity no effect happens and a null "
        "pointer constant is returned; with size < capacity an element is constructed), OWN (no data member of the vectors or "
        "their storages has pointer or reference type: a copy cannot alias its source), PAIR (every construct/destroy is "
        "accompanied by the size update on the same path - LIFE L3), DELEG (stack forwards to the std-specified container "
        "calls), REL (relational operators of static_vector and stack), W-INST (all members instantiate for capacities "
        "0,1,4,255,256 and trivial/non-trivial elements)",
        ["clang 14 parser/sema (tetl-ast)", "g++ 12 (witnesses)", "bounded-model evaluator"])

VECTORS = ["etl::static_vector", "etl::inplace_vector", "etl::inplace_vector<T, 0>"]
STACK_DELEG = {"push": "push_back", "emplace": "emplace_back", "pop": "pop_back", "top": "back", "size": "size", "empty": "empty"}


def cap_rule(chk, db):
    n = 0
    for owner in VECTORS:
        for rq in db.lineage(owner):
            if not rq.startswith("etl::") or (rq != owner and "storage" not in rq):
                continue
            for name in ("capacity", "max_size", "full"):
                for f in db.by_q.get(rq + "::" + name, []):
                    if f.get("record") != rq:
                        continue
                    n += 1
                    chk.instance("CAP")
                    construct = astx.sig(f)
                    fields = [x["n"] for x in astx.all_exprs(f) if x.get("k") == "mem" and x.get("dk") == "field" and astx.is_this(x.get("b"))]
                    ctx = T.TermCtx(f, db)
                    e = T.one_line_return(f)
                    ok = e is not None
                    why = ""
                    if not ok:
                        why = "not a one-line accessor"
                    elif name != "full" and fields:
                        ok, why = False, "reads data member(s) %s" % fields
                    else:
                        t = T.to_term(e, ctx)
                        atoms = set(T.atoms(t))
                        allowed = {"cap(this)", "size(this)"} if name == "full" else {"cap(this)"}
                        if T.has_unknown(t) or not atoms <= allowed and not all(a[0].isupper() for a in atoms - allowed):
                            ok, why = False, "does not reduce to the capacity parameter: %s" % T.show(t)
                    chk.obligation("CAP", construct, ok)
                    if not ok:
                        chk.violation("CAP", construct, "capacity-not-constant", "%s: %s %s" % (astx.loc(f), name, why), {"where": astx.loc(f)})
    if n < 12:
        chk.analysis_broken("CAP: only %d capacity accessors found (floor 12)" % n)


def try_rule(chk, db):
    n = 0
    for rq in ("etl::inplace_vector", "etl::inplace_vector<T, 0>"):
        for name in ("try_push_back", "try_emplace_back"):
            for f in db.by_q.get(rq + "::" + name, []):
                n += 1
                chk.instance("TRY")
                construct = astx.sig(f)
                b = P.Builder(db, max_depth=3)
                prog, ctx = b.build(f)
                atoms = P.prog_atoms(prog)
                entry = dict((k, v) for k, v in atoms.items() if "#" not in k and "@" not in k)
                entry.setdefault("size(this)", "st")
                entry.setdefault("cap(this)", "st")
                invs = G.object_invariants(entry)
                if rq.endswith("0>"):
                    invs += [("cmp", "==", T.var("cap(this)", "st"), T.c(0)), ("cmp", "==", T.var("size(this)", "st"), T.c(0))]
                bad = None
                nm = 0
                for sc in G.sort_choices(entry):
                    ai = dict((k, sc.get(k, v)) for k, v in entry.items())
                    pi = G.inst_prog(prog, sc)
                    for m in T.models(ai, invs):
                        nm += 1
                        tr = P.run(pi, m)
                        full = m["size(this)"] == m["cap(this)"]
                        effects = [ev for ev in tr.events if ev[0] == "effect" and ev[1] in ("own", "outside") and not ev[3]]
                        maybe = [ev for ev in tr.events if ev[0] == "effect" and ev[1] == "maybe"]
                        if full and (effects or maybe) and bad is None:
                            bad = ("effect-when-full", T.show_model(m), effects or maybe)
                        if not full and not effects and not maybe and bad is None:
                            bad = ("no-insertion", T.show_model(m), None)
                # the value returned on the full path is a null pointer constant
                null_ret = False
                for nd in P.flatten(prog):
                    if nd[0] == "ret" and nd[1].get("value") is not None:
                        arms = [astx.strip_casts(nd[1]["value"])]
                        while arms:
                            a = arms.pop()
                            while a is not None and a.get("k") == "paren":
                                a = astx.strip_casts(a.get("e"))
                            if a is None:
                                continue
                            if a.get("k") == "nullptr":
                                null_ret = True
                            elif a.get("k") == "cond":       # `return full ? nullptr : addressof(...)`
                                arms += [astx.strip_casts(a["t"]), astx.strip_casts(a["f"])]
                if not null_ret and bad is None:
                    bad = ("no-null-return", "", None)
                chk.obligation("TRY", construct, bad is None, evaluations=nm)
                if bad:
                    chk.violation("TRY", construct, bad[0], "%s: %s%s" % (astx.loc(f), {
                        "effect-when-full": "the vector is modified although size() == capacity(); witness ",
                        "no-insertion": "nothing is inserted although size() < capacity(); witness ",
                        "no-null-return": "no path returns a null pointer constant"}[bad[0]], bad[1]), {"where": astx.loc(f)})
                else:
                    chk.sample({"rule": "TRY", "member": construct, "models": nm})
    if n < 6:
        chk.analysis_broken("TRY: only %d try_* members found (floor 6)" % n)


def own_rule(chk, db):
    n = 0
    for owner in VECTORS + ["etl::stack"]:
        for rq in db.lineage(owner):
            rec = db.record(rq)
            if rec is None or not rq.startswith("etl::") or (rq != owner and "storage" not in rq and "uninitialized_array" not in rq):
                continue
            for fd in rec["fields"]:
                n += 1
                chk.instance("OWN")
                ty = fd["ty"]
                bad = ty.rstrip().endswith("*") or ty.rstrip().endswith("&") or "(*)" in ty
                chk.obligation("OWN", "%s::%s" % (rq, fd["n"]), not bad)
                if bad:
                    chk.violation("OWN", "%s::%s" % (rq, fd["n"]), "pointer-member", "include/etl/%s:%s: data member `%s %s` lets a copy "
                                  "alias its source" % (rec["file"], fd["line"], ty, fd["n"]), {})
    if n < 6:
        chk.analysis_broken("OWN: only %d data members inspected" % n)


def stack_deleg(chk, db):
    n = 0
    for f in db.funcs_of_record("etl::stack"):
        want = STACK_DELEG.get(f["n"])
        if not want or f.get("kind") != "method":
            continue
        n += 1
        chk.instance("DELEG")
        calls = [x for x in astx.all_exprs(f) if x.get("k") == "call" and x["f"].get("k") == "mem"]
        on_c = [x for x in calls if astx.strip_casts(x["f"].get("b")) is not None and astx.strip_casts(x["f"]["b"]).get("k") == "mem"
                and astx.is_this(astx.strip_casts(x["f"]["b"]).get("b"))]
        names = [x["f"]["n"] for x in on_c]
        ok = names == [want]
        packs_ok = True
        for p in f["params"]:
            if p["n"] and not any(y.get("k") == "ref" and y["n"] == p["n"] for x in on_c for a in x["a"] for y in astx.walk_expr(a)):
                packs_ok = False
        chk.obligation("DELEG", astx.sig(f), ok and packs_ok)
        if not ok:
            chk.violation("DELEG", astx.sig(f), "wrong-callee", "%s: stack::%s must call c.%s, calls %s" % (astx.loc(f), f["n"], want, names or "nothing"),
                          {"where": astx.loc(f)})
        elif not packs_ok:
            chk.violation("DELEG", astx.sig(f), "parameter-dropped", "%s: stack::%s does not pass its argument(s) to c.%s" % (astx.loc(f), f["n"], want),
                          {"where": astx.loc(f)})
    if n < 8:
        chk.analysis_broken("DELEG: only %d stack members found (floor 8)" % n)


def pair_rule(chk, db):
    """LIFE L3 restricted to the vectors (shared with C03)."""
    sigs = L.slot_signatures(db)
    n = 0
    for owner in ("etl::static_vector", "etl::inplace_vector"):
        state = L.state_fields(db, owner)
        for rq in db.lineage(owner):
            if not rq.startswith("etl::") or (rq != owner and "storage" not in rq):
                continue
            for f in L.member_functions(db, rq):
                before = len(chk.violations)
                c03.analyse_function(chk, db, sigs, owner, "vector", rq, f, state)
                n += 1
    return n


ALIAS_MUT = {"clear", "erase", "pop_back", "rotate", "move_backward", "copy_backward", "swap_ranges", "shift_left", "shift_right",
             "reverse", "unsafe_destroy", "unsafe_destroy_all", "destroy", "destroy_at"}
ELEM_TYPES = ("constT&", "const_reference", "constvalue_type&")


def alias_rule(chk, db):
    """ALIAS: insert/push_back/resize take the new value by const reference and std::vector allows it to refer to an element
    of the vector itself (v.insert(v.begin(), v[2])). On every path the last read of that parameter therefore precedes the
    first operation that moves, overwrites or destroys existing elements. (assign and the constructors are exempt:
    [sequence.reqmts] forbids a reference into the container there.)"""
    n = 0
    for f in db.funcs:
        r = f.get("record") or ""
        if not ("static_vector" in r or "inplace_vector" in r) or f.get("body") is None or f["n"] in ("assign", "<ctor>", "operator="):
            continue
        ps = [p0["n"] for p0 in f["params"] if p0["ty"].replace(" ", "").split("::")[-1] in ELEM_TYPES]
        if not ps and f["n"] == "emplace":
            # [sequence.reqmts]: the arguments of a positional emplace may refer to an element of the container as well
            ps = [p0["n"] for p0 in f["params"] if p0.get("n") and (p0.get("pack") or p0["ty"].replace(" ", "").endswith("&&..."))]
        if not ps:
            continue
        x = ps[0]
        n += 1
        construct = astx.sig(f)
        chk.instance("ALIAS")
        bad = None
        for p in SP.paths(f["body"]):
            mut = None
            for ev in p:
                for e in SP.event_exprs(ev):
                    # evaluation order inside one expression: arguments before the call that receives them
                    reads = any(y.get("k") == "ref" and y.get("n") == x and y.get("d") == "param" for y in astx.walk_expr(e, into_lambdas=True))
                    if reads and mut is not None and bad is None:
                        bad = (e, mut)
                    for c in SP.calls_in(e):
                        nm = astx.callee(c)[0]
                        own_move = nm == "move" and len(c["a"]) == 1 and any(
                            z.get("k") == "call" and astx.callee(z)[0] in ("back", "front", "operator[]", "at") or
                            (z.get("k") == "un" and z.get("op") == "*") or z.get("k") == "idx" for z in astx.walk_expr(c["a"][0]))
                        if (nm in ALIAS_MUT or (nm in ("move", "copy") and len(c["a"]) == 3) or own_move) and mut is None:
                            mut = c
        chk.obligation("ALIAS", construct, bad is None)
        if bad:
            chk.violation("ALIAS", construct, "read-after-shift", "%s: `%s` is read in `%s` after `%s` has already moved or destroyed elements; "
                          "if it refers to an element of this vector the wrong value is inserted" % (
                              astx.loc(f, bad[0]), x, astx.show(bad[0], 50), astx.show(bad[1], 50)), {"where": astx.loc(f)})
    if n < 5:
        chk.analysis_broken("ALIAS: only %d members take the element by const reference (floor 5)" % n)


META_EXTRA = 'ALIAS (value parameter read before elements are shifted); SLOTS-W (grown slots are written); POST (the size every mutating member leaves equals its specification; callees by their specification; counting loops summarised); PARAM (every named parameter is consulted).'
META = (META[0] + " " + META_EXTRA, META[1])
META = (META[0] + ' SIB (cv/ref-qualified overloads of one member agree); INITFORM (forwarded packs direct-non-list-initialise).', META[1])
META = (META[0] + ' ERASECNT (erase / erase_if return the distance of the erased range); RESIZE (resize works only at end()).', META[1])
META = (META[0] + ' ROTINS (append-then-rotate inserts rotate from the position parameter); SLOTS-D / SLOTS-C.', META[1])


def resize_rule(chk, db):
    """RESIZE: resize() keeps the existing elements as a prefix ([vector.capacity]: appends sz - size() elements, or erases
    the last size() - sz): every position it hands to insert / emplace is end(), every range it erases ends at end()."""
    n = 0
    for f in db.funcs:
        if f.get("body") is None or f["n"] != "resize" or not any(f["file"].startswith(p) for p in ("_vector/", "_inplace_vector/")):
            continue
        sites = []
        for x in astx.all_exprs(f):
            if x.get("k") != "call" or not x["a"]:
                continue
            nm = astx.callee(x)[0]
            recv = astx.callee(x)[2]
            own = recv is None or astx.is_this(astx.strip_casts(recv))
            if not own:
                continue
            if nm in ("insert", "emplace"):
                sites.append((x, x["a"][0], "inserts at"))
            elif nm == "erase" and len(x["a"]) == 2:
                sites.append((x, x["a"][1], "erases up to"))
        if not sites:
            continue
        n += 1
        construct = astx.sig(f)
        chk.instance("RESIZE")
        bad = None
        for x, pos, what in sites:
            p0 = astx.strip_casts(pos)
            is_end = p0 is not None and p0.get("k") == "call" and astx.callee(p0)[0] in ("end", "cend") and not p0["a"]
            if not is_end and bad is None:
                bad = (x, pos, what)
        chk.obligation("RESIZE", construct, bad is None, evaluations=len(sites))
        if bad:
            chk.violation("RESIZE", construct, "not-at-end", "%s: resize %s `%s`; the existing elements stay a prefix only if it works at end()" % (
                astx.loc(f, bad[0]), bad[2], astx.show(bad[1], 30)), {"where": astx.loc(f)})
    return n

META = (META[0] + ' GAPSHIFT (a backward shift that follows an append covers exactly the old tail, as linear forms over begin / entry end / position); SWAPSYM (the arms of a member swap are mirror images under this <-> other); controls in fixtures/extra8_pos.hpp.', META[1])

META = (META[0] + ' SELFMOVE (the compaction loops behind erase / erase_if never move-assign an element onto itself: (base, offset) positions per path).', META[1])

META = (META[0] + ' FWDMOVE (a forwarding-reference parameter is forwarded, never moved).', META[1])


META = (META[0] + ' MEMSHORT (a bytewise memcmp / memcpy / memmove over elements is guarded by the trait that makes bytes and values agree; controls in fixtures/extra10_pos.hpp). FIELDCAST (a value stored into a size member is converted to that member type, not to a fixed narrower type).', META[1])


def run(chk, tier):
    db = D.load("checks")
    from ..rules import params as _PR
    _PR.check(chk, db, ['_vector/', '_inplace_vector/', '_stack/'], floor=40)
    from ..rules import sibs as _SB
    _SB.check(chk, db, ['_vector/', '_inplace_vector/', '_stack/'])      # SIB: cv/ref-qualified overloads of one member agree
    _SB.positive_control(chk)
    resize_rule(chk, db)
    # SLOTS-D / SLOTS-C (shared with C03): the destroyed range is exactly the removed tail, construction happens at the first free slot
    from ..rules import slots as _SLD
    _SLD.check(chk, D.load("plain"), ["static_vector", "inplace_vector"], lambda r: ("trivial_storage" not in r) or ("non_trivial" in r), only=("D", "C"))
    from ..rules import iters as _ITE
    _ITE.erase_count_area(chk, db, ['_vector/', '_inplace_vector/'])      # ERASECNT: erase / erase_if return the number of erased elements
    _ITE.rotate_insert_area(chk, db, ['_vector/', '_inplace_vector/'])      # ROTINS: append-then-rotate inserts rotate from the requested position
    from ..rules import extra8 as _X8
    _X8.gap_shift_area(chk, db, ['_vector/', '_inplace_vector/'])      # GAPSHIFT: append-then-shift inserts shift exactly the old tail
    _X8.swap_symmetry_area(chk, db, ['_vector/', '_inplace_vector/', '_stack/'])      # SWAPSYM: the two arms of a member swap mirror each other
    _X8.positive_controls(chk, D, ('SWAPSYM', 'GAPSHIFT'))
    from ..rules import extra10 as _X10
    if _X10.mem_shortcut_area(chk, db, ['_vector/', '_inplace_vector/', '_stack/', '_array/']) < 50:      # MEMSHORT (zero calls expected on the library)
        chk.analysis_broken('MEMSHORT: fewer than 50 function bodies scanned (floor 50)')
    if _X10.field_cast_area(chk, db, ['_vector/', '_inplace_vector/']) < 2:      # FIELDCAST
        chk.unknown_instance('FIELDCAST', 'etl::static_vector / etl::inplace_vector', 'fewer than 2 direct stores into a size member found')
    _X10.positive_controls(chk, D, ('MEMSHORT', 'FIELDCAST'))
    if _X8.forward_move_area(chk, db, ['_vector/', '_inplace_vector/', '_stack/']) < 1:      # FWDMOVE
        chk.analysis_broken('FWDMOVE: no member with a forwarding-reference parameter found (floor 1)')
    if _X8.self_move_area(chk, db, ['_algorithm/remove', '_algorithm/unique', '_vector/', '_inplace_vector/']) < 2:      # SELFMOVE
        chk.analysis_broken('SELFMOVE: fewer than 2 compaction loops found (floor 2)')
    from ..rules import initform as _IF
    _IF.check(chk, db, ['_vector/', '_inplace_vector/', '_stack/'])      # INITFORM: forwarded packs direct-non-list-initialise
    cap_rule(chk, db)
    try_rule(chk, db)
    own_rule(chk, db)
    stack_deleg(chk, db)
    pair_rule(chk, db)
    alias_rule(chk, D.load("plain"))
    # POST: the size each mutating member leaves equals the specified one (callees by their own specification)
    npost = slots.check_post(chk, D.load("plain"), ["static_vector", "inplace_vector"])
    if npost < 18:
        chk.analysis_broken("POST: only %d specified mutating members found (floor 18)" % npost)
    # SLOTS-W: a raw size store that may grow the vector is on a path that writes the newly exposed slots
    nsl = slots.check(chk, D.load("plain"), ["static_vector", "inplace_vector"], lambda r: False, only=("W",))
    if chk.rule_instances.get("SLOTS-W", 0) < 2:
        chk.analysis_broken("SLOTS-W: only %d growing size stores found in the vectors (floor 2; delegation may gather them in fewer members)" % chk.rule_instances.get("SLOTS-W", 0))
    nrel = rel.check(chk, db, ["_vector/static_vector.hpp", "_stack/stack.hpp"])
    if chk.rule_instances.get("REL", 0) < 12:      # operators found (an unmodelled body is UNKNOWN, not a lost subject)
        chk.analysis_broken("REL: only %d vector/stack operators modelled" % nrel)
    tus, info = gen.generate(tier == "quick")
    res = wit.compile_many(tus, compiler="g++", jobs=16)
    for tu in tus:
        results, unattributed = res[tu.name]
        wit.judge(chk, "W-TYPES", tu, results, unattributed)
        chk.instance("W-TYPES", len(tu.obl))
    winst.run_matrix(chk, "W-INST", "c01_inst", winst.vector_matrix(tier == "quick"), tier == "quick")
    chk.assumptions += [
        "element order after insert/erase/rotate and the iterators returned are run-time values and are not decided",
        "static_vector<T,N>{}.capacity() in a witness evaluates one constexpr member on a default-constructed literal object "
        "(no element operation), as stated in DESIGN.md 3.2",
    ]
