"""C02 - valid use never leaves the caller's memory, never allocates, never hits UB (clauses, DESIGN.md 5 C02)."""
import json
import os
import re
import subprocess

from .. import astx
from .. import db as D
from .. import prog as P
from .. import terms as T
from ..rules import bound as B
from . import c05, c08

META = ("EFFECT (no dynamic allocation in any function body, all preprocessor branches, positive control), INIT "
        "(every observer-visible state field initialised by every constructor), BOUND (indexed accesses through "
        "(pointer,length) buffers proved in bounds over the finite model space under the documented preconditions), "
        "SHIFT (shift amounts below the operand width); thorough: object-code cross-check that no compiled unit "
        "imports an allocator symbol",
        ["clang 14 parser/sema (tetl-ast)", "bounded-model evaluator", "specs/contracts.json preconditions",
         "nm (objscan, thorough tier, compile-only)"])

ALLOC_CALLS = {"malloc", "calloc", "realloc", "free", "aligned_alloc", "posix_memalign", "strdup", "strndup", "valloc",
               "memalign", "operator new", "operator delete", "operator new[]", "operator delete[]"}
# one named exception: the deleter functor exists to call delete on a pointer the *user* obtained from new; nothing in
# the library instantiates it
EXCLUDED_ALLOC = {"etl::default_delete", "etl::default_delete<T[]>", "include/etl/_memory/default_delete.hpp"}
ALLOC_STD = re.compile(r"\bstd::(allocator|vector|basic_string|string|map|set|list|deque|unordered_map|unordered_set|"
                       r"shared_ptr|make_shared|make_unique|unique_ptr|function|any)\b")
FIXTURE = os.path.join(D.VERIF, "fixtures", "alloc_pos.hpp")

# owners whose observer-visible state must never be indeterminate (public names; fields are derived)
INIT_RECORDS = ["etl::static_vector", "etl::inplace_vector", "etl::basic_inplace_string", "etl::basic_string_view",
                "etl::variant", "etl::optional<T &>", "etl::inplace_function<R (Args...), Capacity, Alignment>",
                "etl::basic_bitset", "etl::span", "etl::static_set", "etl::flat_set", "etl::flat_multiset", "etl::stack",
                "etl::mdspan", "etl::expected", "etl::optional"]
OBSERVERS = ("size", "length", "index", "has_value", "operator bool", "data", "begin", "empty", "get_size", "count",
             "any", "none", "all", "test", "extent", "data_handle", "mapping", "c_str")


def scan_alloc_ast(chk, db, label):
    n = 0
    for f in db.funcs:
        for e in astx.all_exprs(f):
            k = e.get("k")
            bad = None
            if k == "new" and not e.get("placement"):
                bad = "new-expression without placement arguments (`%s`)" % astx.show(e, 60)
            elif k == "delete":
                bad = "delete-expression"
            elif k == "call":
                nm, q, recv, kind = astx.callee(e)
                if nm in ALLOC_CALLS and kind == "free":
                    bad = "call of %s" % nm
                elif q and ALLOC_STD.search(q):
                    bad = "use of %s" % q
            elif k in ("construct", "cast") and ALLOC_STD.search(e.get("ty", "")):
                bad = "use of %s" % e["ty"]
            n += 1
            if bad and f.get("record") in EXCLUDED_ALLOC:
                chk.extra.setdefault("excluded", []).append("%s: %s (deleter functor for user-owned pointers)" % (astx.sig(f), bad))
                bad = None
            if bad:
                chk.violation("EFFECT-noalloc", astx.sig(f), "allocates",
                              "%s: %s in %s" % (astx.loc(f, e), bad, f["q"]), {"where": astx.loc(f), "construct": bad})
    return n


def lex_tokens(text):
    text = re.sub(r"//[^\n]*", " ", text)
    text = re.sub(r"/\*.*?\*/", " ", text, flags=re.S)
    text = re.sub(r"(?m)^[ \t]*#[ \t]*include[^\n]*", " ", text)
    text = re.sub(r'"(?:\\.|[^"\\])*"', '""', text)
    text = re.sub(r"'(?:\\.|[^'\\])*'", "''", text)
    return re.findall(r"[A-Za-z_][A-Za-z_0-9]*|::|[^\sA-Za-z_0-9]", text)


def scan_alloc_lexer(chk, root):
    """all preprocessor branches: token-level scan of every header under include/etl."""
    nfiles = 0
    hits = []
    for dp, dn, fn in os.walk(root):
        for name in fn:
            if not name.endswith(".hpp"):
                continue
            path = os.path.join(dp, name)
            rel = os.path.relpath(path, os.path.dirname(os.path.dirname(root.rstrip("/"))))
            with open(path, errors="replace") as fh:
                src = fh.read()
            nfiles += 1
            toks = lex_tokens(src)
            for i, t in enumerate(toks):
                prev = toks[i - 1] if i else ""
                nxt = toks[i + 1] if i + 1 < len(toks) else ""
                if t == "new" and prev not in ("operator",) and nxt != "(" and prev != "::" or \
                        (t == "new" and prev == "::" and nxt != "("):
                    if "_new/operator.hpp" in path:
                        continue
                    hits.append((rel, "new-expression without placement"))
                elif t == "delete" and prev not in ("=", "operator"):
                    hits.append((rel, "delete-expression"))
                elif t in ("malloc", "calloc", "realloc", "aligned_alloc", "posix_memalign", "strdup") and nxt == "(" and prev != ".":
                    hits.append((rel, "call of " + t))
            if ALLOC_STD.search(re.sub(r"//[^\n]*", " ", src)):
                hits.append((rel, "use of an allocating std:: facility"))
    hits = [(r, w) for (r, w) in hits if r not in EXCLUDED_ALLOC]
    for rel, what in hits:
        chk.violation("EFFECT-noalloc", rel, "allocates-lexer", "%s: %s (raw-lexer pass over all preprocessor branches)" % (rel, what),
                      {"file": rel})
    return nfiles, len(hits)


def operator_new_declarations(chk, db):
    """only the two placement forms may be declared under include/etl"""
    bad = []
    for f in db.funcs:
        if f["n"] in ("operator new", "operator new[]", "operator delete", "operator delete[]"):
            if len(f["params"]) < 2:
                bad.append(f)
    chk.obligation("EFFECT-noalloc", "only placement operator new is defined in include/etl", not bad)
    for f in bad:
        chk.violation("EFFECT-noalloc", astx.sig(f), "allocates", "%s: non-placement %s defined" % (astx.loc(f), f["n"]), {})


def state_fields_of(db, rec_q):
    out = {}
    seen = set()

    def follow(rq, name, depth):
        if depth > 4 or (rq, name) in seen:
            return
        seen.add((rq, name))
        for f in db.methods(rq, name):
            if f["params"]:
                continue
            e = T.one_line_return(f)
            if e is None:
                continue
            for x in astx.walk_expr(e):
                if x.get("k") == "mem" and astx.is_this(x.get("b")) and x.get("dk") == "field":
                    out.setdefault(f.get("record"), set()).add(x["n"])
                if x.get("k") == "call":
                    n, q, recv, kind = astx.callee(x)
                    if kind == "member" and astx.is_this(recv) and not x["a"]:
                        follow(rq, n, depth + 1)
                    elif kind == "free" and not x["a"] and x["f"].get("d") in ("func", "CXXMethod", "unresolved"):
                        follow(rq, n, depth + 1)
    for name in OBSERVERS:
        follow(rec_q, name, 0)
    return out


def check_init(chk, db):
    n = 0
    nested_owners = [r.get("q") or (r["parent"] + "::" + r["n"]) for r in db.records if r.get("parent") in INIT_RECORDS]
    for rq in INIT_RECORDS + nested_owners:
        if not db.rec_by_q.get(rq):
            if rq in INIT_RECORDS:
                chk.analysis_broken("INIT: class %s no longer exists" % rq)
            continue
        per_rec = state_fields_of(db, rq)
        for owner_q, fields in sorted(per_rec.items()):
            rec = db.record(owner_q)
            if rec is None:
                continue
            ctors = [m for m in rec["methods"] if m["kind"] == "ctor"]
            bodies = dict(((f["line"]), f) for f in db.funcs if f.get("record") == owner_q and f["kind"] == "ctor")
            for fd in rec["fields"]:
                if fd["n"] not in fields:
                    continue
                ty = fd["ty"]
                nested = [r["n"] for r in db.records if r.get("parent") == owner_q]
                al_txt = " ".join(a["ty"] for a in rec.get("aliases", []) if a["n"] == db.strip_type(ty).split("::")[-1])
                aggregate = False
                rt = db.resolve_type(ty, owner_q)
                if rt is not None and not "[" in ty:
                    rr = db.record(rt[0] if isinstance(rt, tuple) else rt)
                    # an aggregate without constructors and without default member initialisers (etl::array) is left
                    # indeterminate by default-initialisation: as observer-visible state it needs its own initialiser
                    if rr is not None and not [m for m in rr["methods"] if m["kind"] == "ctor"] and rr["fields"] and \
                            not any("nsdmi" in x for x in rr["fields"]) and owner_q in nested_owners:
                        aggregate = True
                if not aggregate and ("[" in ty or rt is not None or any(n in al_txt for n in nested)):
                    continue   # raw storage arrays and class-type members (initialised by their own constructors)
                construct = "%s::%s" % (owner_q, fd["n"])
                chk.instance("INIT")
                n += 1
                if "nsdmi" in fd:
                    chk.obligation("INIT", construct, True)
                    chk.sample({"field": construct, "initialised_by": "default member initialiser"})
                    continue
                bad = None
                if not ctors:
                    bad = "no constructor and no default member initialiser: default-initialisation leaves it indeterminate"
                for m in ctors:
                    if m.get("deleted"):
                        continue
                    special = m.get("special")
                    if m.get("defaulted"):
                        if special == "default_ctor":
                            bad = "defaulted default constructor and no default member initialiser"
                        continue
                    f = bodies.get(m["line"])
                    if f is None:
                        continue
                    inits = f.get("inits") or []
                    if any(i.get("delegating") or (i.get("base") and rec["n"] in i["base"].split("<")[0]) for i in inits):
                        continue
                    if any(i.get("field") == fd["n"] for i in inits):
                        continue
                    # unconditional store in the body before anything else reads it
                    assigned = False
                    body = f["body"]["s"] if f["body"].get("k") == "seq" else []
                    for st in body:
                        if st.get("k") == "expr" and st["e"].get("k") == "bin" and st["e"]["op"] == "=":
                            l0 = astx.strip_casts(st["e"]["l"])
                            if l0.get("k") == "mem" and astx.is_this(l0.get("b")) and l0["n"] == fd["n"]:
                                assigned = True
                    if aggregate:
                        assigned = False      # a store to one element does not initialise the others
                    if not assigned and not aggregate:
                        # stored through a member function called unconditionally (set_size(...)) ?
                        b = P.Builder(db, max_depth=3, versioning=False)
                        prog, ctx = b.build(f)
                        # the store must come first and unconditionally: a store inside a loop or branch may not happen, and a
                        # store behind a check or a construction that already consulted the field (push_back: `construct_at(end())`,
                        # `size() + 1`) reads the indeterminate value it is supposed to replace
                        tainted = [False]

                        def scan(nodes):
                            for x in nodes:
                                if assigned_box[0]:
                                    return
                                if x[0] == "effect" and x[2].get("field") == fd["n"] and x[2].get("root") == "this":
                                    if not tainted[0]:
                                        assigned_box[0] = True
                                    return
                                if x[0] == "inline":
                                    scan(x[2])
                                elif x[0] in ("loop", "branch"):
                                    tainted[0] = True
                                elif x[0] == "guard" or (x[0] == "effect" and x[2].get("token") in ("construct", "destroy")):
                                    tainted[0] = True
                        assigned_box = [False]
                        scan(prog)
                        assigned = assigned_box[0]
                    if not assigned:
                        # reported per constructor (a known finding about one constructor must not hide another one)
                        c2 = "%s in %s" % (construct, astx.sig(f))
                        chk.obligation("INIT", c2, False)
                        chk.violation("INIT", c2, "indeterminate",
                                      "include/etl/%s:%s: state field %s read by the public observers: constructor %s does not initialise "
                                      "it before it is read (a store inside a loop or branch, or behind a check / construction that "
                                      "already consulted it, does not count)" % (rec["file"], f.get("line"), construct, astx.sig(f)),
                                      {"record": owner_q, "field": fd["n"]})
                chk.obligation("INIT", construct, bad is None)
                if bad:
                    chk.violation("INIT", construct, "indeterminate",
                                  "include/etl/%s:%s: state field %s read by the public observers: %s" % (
                                      rec["file"], fd["line"], construct, bad), {"record": owner_q, "field": fd["n"]})
    return n


def contract_for(db, table, f):
    for ent in table:
        if ent.get("config") == "safe":
            pass
        try:
            if any(x is f for x in c05.select(db, ent)):
                return ent
        except Exception:
            continue
    return None


def bound_sites(chk, db, table, tier):
    total_sites = 0
    models = 0

    def report(f, sites, label):
        nonlocal total_sites
        for sid, s in sorted(sites.items()):
            construct = "%s :: %s" % (astx.sig(f), sid.split(":", 1)[-1] if False else sid)
            total_sites += 1
            chk.instance("BOUND")
            chk.obligation("BOUND", construct, True if s.verdict == "PROVED" else (None if s.verdict == "UNKNOWN" else False),
                           nontrivial=True, evaluations=max(1, s.reached))
            if s.verdict == "REFUTED":
                chk.violation("BOUND", construct, "out-of-bounds",
                              "%s:%s: %s may be out of bounds: index %s, bound %s; witness %s%s" % (
                                  s.info["file"], s.info["line"], s.info["what"], s.info["index"], s.info["bound"], s.witness,
                                  getattr(s, "variant", "")), {"where": "%s:%s" % (s.info["file"], s.info["line"]), "witness": s.witness})
            elif s.verdict == "UNKNOWN":
                chk.unknown_instance("BOUND", construct, s.witness or "")
            chk.sample({"site": construct, "index": s.info["index"], "bound": s.info["bound"], "verdict": s.verdict,
                        "states_reaching_it": s.reached})

    # (1) integer formatting kernel: buffer (str, length)
    fs = db.by_q.get("etl::strings::from_integer", [])
    if not fs:
        chk.analysis_broken("BOUND: etl::strings::from_integer no longer exists")
    for f in fs:
        for sc, fx in (({"is_signed_v": True, "terminate_with_null": True}, {"Options.terminate_with_null": 1}),
                       ({"is_signed_v": True, "terminate_with_null": False}, {"Options.terminate_with_null": 0}),
                       ({"is_signed_v": False, "terminate_with_null": False}, {"Options.terminate_with_null": 0})):
            sites, n = B.decide(db, f, {"str": (lambda ctx: T.var("length", "u"), "str")}, static_conds=sc, fixed_atoms=fx)
            models += n
            if not sites:
                chk.analysis_broken("BOUND: no store through `str` found in from_integer")
            report(f, dict(("%s {signed=%s,nul=%s}" % (k, sc["is_signed_v"], sc["terminate_with_null"]), v) for k, v in sites.items()), "")
    # (2) string_view: reads through _begin are below size()
    svf = [f for f in db.funcs_of_record("etl::basic_string_view") if f.get("kind") == "method" and f.get("access") == "public"]
    if len(svf) < 40:
        chk.analysis_broken("BOUND: only %d public members of basic_string_view" % len(svf))
    for f in svf:
        ent = contract_for(db, table, f)
        assume = None
        if ent:
            from .. import spec as S
            ctx = T.TermCtx(f, db)
            try:
                assume = [S.parse(ent["req"], f, ctx=ctx)]
            except Exception:
                assume = None
        sites, n = B.decide(db, f, {"this._begin": (lambda ctx: T.size_of("this", ctx), "_begin")}, assume=assume,
                            extra_hook=c08.view_hook)
        models += n
        report(f, sites, "")
    # (3) basic_inplace_string, const members: pointers formed from data() / begin() stay within [0, size()] (a read-only member
    #     has no business behind the last character; the mutating members may form pointers up to capacity())
    total_sites += string_read_sites(chk, db, report)
    chk.extra["bound_models_evaluated"] = models
    return total_sites


def string_read_sites(chk, db, report=None):
    n = 0
    for f in db.funcs_of_record("etl::basic_inplace_string"):
        if f.get("kind") != "method" or not f.get("const") or f.get("body") is None:
            continue
        try:
            sites, _m = B.decide(db, f, {}, extra_hook=c08.view_hook)
        except Exception:
            continue
        for sid, s in sorted(sites.items()):
            n += 1
            construct = "%s :: %s" % (astx.sig(f), sid)
            chk.instance("BOUND")
            chk.obligation("BOUND", construct, True if s.verdict == "PROVED" else (None if s.verdict == "UNKNOWN" else False),
                           nontrivial=True, evaluations=max(1, s.reached))
            if s.verdict == "REFUTED":
                chk.violation("BOUND", construct, "out-of-bounds",
                              "%s:%s: %s may be out of bounds: index %s, bound %s; witness %s" % (
                                  s.info["file"], s.info["line"], s.info["what"], s.info["index"], s.info["bound"], s.witness),
                              {"where": "%s:%s" % (s.info["file"], s.info["line"]), "witness": s.witness})
            elif s.verdict == "UNKNOWN":
                chk.unknown_instance("BOUND", construct, s.witness or "")
    return n


def objscan(chk):
    """thorough: compile (not run) every test/example TU with the suite's flags and check the imported symbols."""
    import concurrent.futures
    import glob
    srcs = sorted(glob.glob(os.path.join(D.REPO, "tests", "**", "*.t.cpp"), recursive=True)) + \
        sorted(glob.glob(os.path.join(D.REPO, "examples", "*.cpp")))
    out = D.scratch()
    bad_syms = re.compile(r"\b(_Znwm|_Znam|_ZnwmSt|_ZnamSt|_ZdlPv|_ZdaPv|_ZdlPvm|_ZdaPvm|malloc|calloc|realloc|free|aligned_alloc|posix_memalign)\b")

    def one(i_src):
        i, src = i_src
        obj = os.path.join(out, "o%d.o" % i)
        cmd = ["g++", "-std=c++20", "-O0", "-c", "-w", "-DTETL_ENABLE_CONTRACT_CHECKS=1", "-DTETL_ENABLE_USER_CONFIG_HEADER_INCLUDE=1",
               "-I" + os.path.join(D.REPO, "tests"), "-I" + D.INCLUDE, src, "-o", obj]
        r = subprocess.run(cmd, capture_output=True, text=True)
        if r.returncode != 0:
            return (src, None, r.stderr[-300:])
        nm = subprocess.run(["nm", "-u", obj], capture_output=True, text=True).stdout
        os.unlink(obj)
        return (src, [m.group(1) for m in bad_syms.finditer(nm)], "")
    with concurrent.futures.ThreadPoolExecutor(max_workers=16) as ex:
        res = list(ex.map(one, enumerate(srcs)))
    ncomp = 0
    for src, syms, err in res:
        rel = os.path.relpath(src, D.REPO)
        if syms is None:
            chk.note("objscan: %s does not compile stand-alone: %s" % (rel, err.strip().split("\n")[-1][:120]))
            continue
        ncomp += 1
        if syms:
            with open(src, errors="replace") as fh:
                toks = lex_tokens(fh.read())
            own = any(t == "new" and (toks[i + 1] if i + 1 < len(toks) else "") != "(" and toks[i - 1] != "operator"
                      for i, t in enumerate(toks)) or any(t == "delete" and toks[i - 1] not in ("=", "operator") for i, t in enumerate(toks))
            if own:
                chk.extra.setdefault("objscan_units_allocating_themselves", []).append(rel)
                continue
        chk.obligation("EFFECT-noalloc-obj", rel, not syms, nontrivial=True)
        if syms:
            chk.violation("EFFECT-noalloc-obj", rel, "imports-allocator",
                          "%s: object code imports %s" % (rel, ", ".join(sorted(set(syms)))), {"unit": rel})
    chk.extra["objscan_units"] = ncomp
    chk.instance("EFFECT-noalloc-obj", ncomp)
    if ncomp < 200:
        chk.analysis_broken("objscan: only %d units compiled" % ncomp)


META_EXTRA = "Pointer-formation obligations and counting-loop reachability extend BOUND; SLOTS-U (range writes into the strings' inline buffers stay at or below capacity()); INIT covers aggregate state of nested layouts."
META = (META[0] + " " + META_EXTRA, META[1])
META = (META[0] + ' SHIFT (shift counts below the promoted operand width, symbolic type width).', META[1])
META = (META[0] + ' IT1 (no dereference of a scan cursor without a dominating end test) and PTRCOUNT (pointer parameters indexed strictly below the count) over algorithms, char_traits and C-string helpers.', META[1])
META = (META[0] + " SUB (sub-span pairs stay inside the span); IT1n (counted ranges are touched only where count > 0); RAWDIFF (integer midpoint); BOUND follows local pointers and covers the string's const members.", META[1])
META = (META[0] + ' PRECALL (valid calls never violate the precondition of a member they call internally); IDXLOOP.', META[1])
META = (META[0] + ' RSTEP (downward scans test the lower bound before each step); NEGMIN (no negation of a value that may be numeric_limits::min(); positive and negative controls in fixtures/arith_pos.hpp).', META[1])

META = (META[0] + " DISTGUARD (a search loop guarded by `last - first >= X` that reads a whole second range from its cursor needs X >= that range's length; controls in fixtures/extra8_pos.hpp); PTRCOUNT also rejects a subscript that is the count parameter itself.", META[1])

META = (META[0] + ' FIRSTREAD (shared with C08: the first character a search reads lies inside the view, an empty view is never read).', META[1])

META = (META[0] + ' CONDORDER (in a counted routine the count test precedes the dereference it guards inside every && condition).', META[1])

META = (META[0] + ' PREVBOUND (a loop that stops at `!= prev(last)` knows the range is not empty; controls in fixtures/extra8_pos.hpp).', META[1])


META = (META[0] + ' LITMASK over _bit/ (no mask or power of two is built by shifting an int / unsigned literal by a run-time count: for a 64-bit argument a count of 32 or more is undefined, so constant evaluation fails and run time wraps; control in fixtures/arith_pos.hpp).', META[1])


META = (META[0] + ' SLOTS-D / SLOTS-C / SLOTS-G (shared with C03: the destroyed range is exactly the removed tail; gained slots are constructed).', META[1])


META = (META[0] + ' S2 (shared with C09: static_set appends to its storage only behind the !full() test).', META[1])


META = (META[0] + ' TERM (shared with C04: every size store of the string is followed by the terminator at that index).', META[1])


META = (META[0] + ' SHIFTNEG (a shift by a signed parameter - the int of the <cctype> functions, EOF included - happens only where the parameter is known to be non-negative; controls in fixtures/extra12_pos.hpp).', META[1])


def run(chk, tier):
    db = D.load("plain")
    with open(c05.SPEC) as fh:
        table = json.load(fh)["entries"]
    # ---- EFFECT: no dynamic allocation
    n = scan_alloc_ast(chk, db, "plain")
    chk.instance("EFFECT-noalloc:expressions", n)
    chk.obligation("EFFECT-noalloc", "no allocating expression in %d function bodies" % len(db.funcs),
                   not any(v["rule"] == "EFFECT-noalloc" for v in chk.violations), evaluations=n)
    nfiles, nh = scan_alloc_lexer(chk, D.ROOT)
    chk.instance("EFFECT-noalloc:files-lexed", nfiles)
    chk.obligation("EFFECT-noalloc", "raw-lexer pass over %d headers (all preprocessor branches)" % nfiles, nh == 0, evaluations=nfiles)
    operator_new_declarations(chk, db)
    # positive control: the fixture must be reported by both passes
    fx = D.load_source('#include "%s"\n' % FIXTURE, root=os.path.dirname(FIXTURE) + "/", tag="fixture-alloc")
    probe = type(chk)(chk.prop, chk.tier)
    probe.known_index = set()
    scan_alloc_ast(probe, fx, "fixture")
    scan_alloc_lexer(probe, os.path.dirname(FIXTURE) + "/")
    kinds = set(v["witness_class"] for v in probe.violations)
    if kinds != {"allocates", "allocates-lexer"}:
        chk.analysis_broken("EFFECT-noalloc positive control silent: fixture reported as %s" % sorted(kinds))
    chk.extra["positive_control"] = sorted(kinds)
    chk.extra["skipped_pp_regions"] = len(db.skipped)
    chk.extra["functions_analysed"] = len(db.funcs)
    if nfiles < 700:
        chk.analysis_broken("only %d headers lexed" % nfiles)
    # ---- SLOTS-U: range writes into the inline buffers of the strings stay inside the buffer
    from ..rules import slots as _SL
    _SL.check(chk, D.load("plain"), ["basic_inplace_string"], lambda r: False, only=("U",))
    if chk.rule_instances.get("SLOTS-U", 0) < 4:
        chk.analysis_broken("SLOTS-U: only %d range writes found in basic_inplace_string (floor 4)" % chk.rule_instances.get("SLOTS-U", 0))
    # ---- INIT
    ni = check_init(chk, db)
    if ni < 12:
        chk.analysis_broken("INIT: only %d state fields derived (floor 12)" % ni)
    # ---- BOUND
    ns = bound_sites(chk, db, table, tier)
    if ns < 10:
        chk.analysis_broken("BOUND: only %d access sites analysed (floor 10)" % ns)
    # ---- IT1: no algorithm dereferences a scan cursor that has not been compared with its range end since its last step
    from ..rules import iters as _IT
    cdb = D.load("checks")
    n1 = 0
    for f in cdb.funcs:
        if not (f["file"].startswith("_algorithm/") or f["file"].startswith("_numeric/")) or f.get("kind") != "function":
            continue
        r = _IT.check_scan(chk, f)
        if r is None or r[0] == "not-modelled":
            continue
        n1 += 1
        chk.instance("IT1")
        chk.obligation("IT1", astx.sig(f), r[0] == "ok", evaluations=r[2] if r[0] == "ok" else 1)
        if r[0] != "ok":
            var, node, what = r[1]
            chk.violation("IT1", astx.sig(f), "unchecked-cursor", "%s: `%s` is %s (`%s`) on a path where it has not been compared "
                          "with its range end since its last increment: an element outside the range is read" % (
                              astx.loc(f, node), var, what, astx.show(node, 50)), {"where": astx.loc(f)})
    if n1 < 60:
        chk.analysis_broken("IT1: only %d algorithms with a modelled scan cursor (floor 60)" % n1)
    _IT.counted_area(chk, cdb, ['_algorithm/', '_numeric/', '_memory/'], floor=2)      # IT1n: counted ranges are touched only where count > 0
    if _IT.rawdiff_rule(chk, cdb) < 1:
        chk.unknown_instance('RAWDIFF', 'etl::midpoint', 'the integral overload of midpoint was not recognised')
    _IT.index_loop_area(chk, cdb, ['_string_view/', '_string/basic_inplace_string', '_bitset/', '_span/', '_array/'])      # IDXLOOP
    _IT.counted_buffer_area(chk, cdb, ['_string/char_traits', '_cstring/', '_cwchar/', '_strings/cstr', '_algorithm/', '_memory/'])      # PTRCOUNT
    _IT.count_subscript_control(chk, D)
    from ..rules import extra8 as _X8c
    if _X8c.cond_order_area(chk, cdb, ['_string/char_traits', '_cstring/', '_cwchar/', '_strings/cstr', '_algorithm/', '_memory/']) < 1:      # CONDORDER
        chk.unknown_instance('CONDORDER', 'counted C-string routines', 'no condition that combines a count test with a dereference found')
    # ---- RSTEP: downward scans compare the cursor with its lower bound before every step
    from ..rules import extra8 as _X8
    _X8.dist_guard_area(chk, cdb, ['_algorithm/', '_numeric/', '_string_view/', '_strings/'])      # DISTGUARD
    _X8.positive_controls(chk, D, ('DISTGUARD', 'PREVBOUND'))
    _X8.prev_bound_area(chk, cdb, ['_algorithm/', '_numeric/'])      # PREVBOUND (zero expected on the library)
    from ..rules import exits as _EXF
    if _EXF.check_first_read(chk, D.load('plain')) < 4:      # FIRSTREAD: an empty view is never read, the first read is inside the view
        chk.analysis_broken('FIRSTREAD: fewer than 4 searches that scan by themselves (floor 4)')
    if _IT.rstep_area(chk, cdb, [""]) < 8:
        chk.analysis_broken("RSTEP: fewer than 8 downward scans found (floor 8)")
    # ---- NEGMIN: no negation of a value the function itself believes may be numeric_limits::min()
    from ..rules import arith as _AR
    _AR.negmin_area(chk, cdb, [""])
    _AR.positive_controls(chk, D, ("NEGMIN",))
    from . import c17 as _c17
    _c17.litmask_rule(chk, D.load('checks'), ('_bit/',))      # LITMASK (zero expected on the library)
    # SLOTS-D / SLOTS-C / SLOTS-G (shared with C03): an element that stays inside [begin(), end()) is not destroyed, a slot that
    # enters it holds a constructed object - otherwise the next access reads an object outside its lifetime
    from ..rules import slots as _SLD
    _SLD.check(chk, D.load("plain"), ["static_vector", "inplace_vector"], lambda r: ("trivial_storage" not in r) or ("non_trivial" in r), only=("D", "C", "G"))
    if chk.rule_instances.get("SLOTS-D", 0) < 2:
        chk.analysis_broken("SLOTS-D: fewer than 2 shrinking size stores found in the vectors (floor 2)")
    # S2 (shared with C09): the fixed-capacity set appends to its storage only behind the !full() test - an unguarded
    # push_back writes one element past the inline array
    from ..rules import sets as _SR2
    _cdb = D.load("checks")
    ns2 = 0
    for _rq, _needs in (("etl::static_set", True),):
        _fs = [f for f in _cdb.funcs if f.get("record") == _rq]
        ns2 += _SR2.s2_guarded_insertion(chk, _cdb, _rq, _fs, _needs)
    if ns2 < 1:
        chk.analysis_broken("S2: no insertion path of static_set found (floor 1)")
    # TERM (shared with C04): c_str() / data() promise a null-terminated array; a size store that is not followed by the
    # terminator lets every C-string reader (strlen, the pointer overloads of find / compare) run past the object
    from . import c04 as _c04t
    _c04t.terminator_rule(chk, D.load("checks"))
    from ..rules import extra12 as _X12s
    _X12s.shift_negative_area(chk, D.load('checks'), ['_cctype/', '_cwctype/', '_bit/', '_strings/', '_charconv/', '_cstdlib/', '_cstring/'])      # SHIFTNEG (zero expected)
    _X12s.shift_negative_control(chk, D)
    # ---- PRECALL: valid calls never violate the precondition of a member they call internally
    if c05.precall(chk, D.load("checks")) < 40:
        chk.analysis_broken("PRECALL: fewer than 40 container operations with a contract-table entry found")
    # ---- SUB: the (pointer, count) pairs span::first / last / subspan build stay inside the span (shared with C19)
    from . import c19 as _c19
    _c19.sub_rule(chk, db, table)
    # ---- SHIFT: a shift count that can reach the promoted width of its left operand is undefined behaviour
    from ..rules import shift as _SH
    _SH.check(chk, D.load("checks"), ["_bit/", "_bitset/", "_random/", "_memory/", "_numeric/", "_math/", "_cstdlib/", "_strings/"], floor=30)
    # ---- thorough: object-level cross-check
    if tier == "thorough":
        objscan(chk)
    chk.assumptions += [
        "signed overflow in arithmetic kernels, aliasing misuse and reads of padding need value reasoning and are not decided",
        "BOUND: accesses through moving pointers (*p++) and through algorithms are not sites; loop states after the first "
        "iteration are over-approximated (can prove, cannot refute)",
        "small-model assumption for the predicate fragment as in C05",
    ]
