"""C09 - sets stay sorted and unique and answer like std::set (clauses, DESIGN.md 5 C09)."""
from .. import astx
from .. import db as D
from ..rules import rel, sets as SR
from witness import winst

META = ("S1 (every ordering-sensitive algorithm over the backing store receives the set's comparator), S2 (every "
        "insertion into the backing store is dominated by a lower_bound position, the uniqueness test on it and, for "
        "static_set, !full()), S3 (erase-by-key tests equivalence before erasing), S4 (find selects exactly the "
        "equivalent element, evaluated over ord(element,key) in {<,=,>}), S5 (no iterator reuse after erase), S6 "
        "(extract moves the container out before clearing), REL (set relational operators), W-INST (every member "
        "instantiates for int / non-trivial keys, less/greater/transparent comparators)",
        ["clang 14 parser/sema (tetl-ast)", "g++ 12 (W-INST)"])

SETS = {"etl::static_set": True, "etl::flat_set": False, "etl::flat_multiset": False}


META_EXTRA = 'S2/S3 decided in both orderings left open by lower_bound; S7 (insert returns the found position when an equivalent element exists); PARAM.'
META = (META[0] + " " + META_EXTRA, META[1])
META = (META[0] + ' SIB; INITFORM (emplace direct-non-list-initialises the key).', META[1])
META = (META[0] + ' S6 with the emptied postcondition of extract(); ERASECNT.', META[1])
META = (META[0] + ' S8 (the iterator returned for a new element is the lower_bound position); EQRANGE.', META[1])

META = (META[0] + ' BISECT (the bisection loops of lower_bound / upper_bound, which every lookup and insertion of the sets rests on, keep exactly the half that can hold the answer).', META[1])


META = (META[0] + ' MEMSHORT (a bytewise memcmp / memcpy / memmove over elements is guarded by the trait that makes bytes and values agree; controls in fixtures/extra10_pos.hpp).', META[1])


META = (META[0] + ' SETPUSH (a sorted set appends to its storage only inside insert / emplace, followed by the rotation that places the element).', META[1])


def run(chk, tier):
    db = D.load("checks")
    from ..rules import params as _PR
    _PR.check(chk, db, ['_set/', '_flat_set/'], floor=30)
    from ..rules import sibs as _SB
    _SB.check(chk, db, ['_set/', '_flat_set/'])      # SIB: cv/ref-qualified overloads of one member agree
    _SB.positive_control(chk)
    from ..rules import iters as _ITE
    _ITE.erase_count_area(chk, db, ['_set/', '_flat_set/'])      # ERASECNT: erase / erase_if return the number of erased elements
    _ITE.equal_range_area(chk, db, ['_set/', '_flat_set/', '_algorithm/equal_range'])      # EQRANGE
    if _ITE.bisect_area(chk, db, ['_algorithm/lower_bound', '_algorithm/upper_bound']) < 2:      # BISECT: the searches every set lookup rests on
        chk.analysis_broken("BISECT: the bisection loops of lower_bound / upper_bound were not found")
    from ..rules import initform as _IF
    _IF.check(chk, db, ['_set/', '_flat_set/'])      # INITFORM: emplace direct-non-list-initialises the key
    from ..rules import extra10 as _X10
    if _X10.mem_shortcut_area(chk, db, ['_set/', '_flat_set/', '_algorithm/lower_bound', '_algorithm/upper_bound', '_algorithm/equal', '_algorithm/lexicographical']) < 40:      # MEMSHORT
        chk.analysis_broken('MEMSHORT: fewer than 40 function bodies scanned (floor 40)')
    _X10.positive_controls(chk, D, ('MEMSHORT',))
    from ..rules import extra12 as _X12
    if _X12.set_push_area(chk, db, ['etl::static_set', 'etl::flat_set', 'etl::flat_multiset']) < 1:      # SETPUSH
        chk.analysis_broken('SETPUSH: no member of the sets appends to the underlying storage (floor 1)')
    totals = {}
    for rq, needs_full in SETS.items():
        if not db.rec_by_q.get(rq):
            chk.analysis_broken("set class %s no longer exists" % rq)
            continue
        funcs = [f for f in db.funcs if f.get("record") == rq]
        totals["S1"] = totals.get("S1", 0) + SR.s1_comparator(chk, db, rq, funcs)
        if rq != "etl::flat_multiset":
            totals["S2"] = totals.get("S2", 0) + SR.s2_guarded_insertion(chk, db, rq, funcs, needs_full)
            totals["S3"] = totals.get("S3", 0) + SR.s3_erase_by_key(chk, db, rq, funcs)
            totals["S4"] = totals.get("S4", 0) + SR.s4_lookup(chk, db, rq, funcs)
            totals["S7"] = totals.get("S7", 0) + SR.s7_insert_result(chk, db, rq, funcs)
            totals["S8"] = totals.get("S8", 0) + SR.s8_new_position(chk, db, rq, funcs)
        totals["S5"] = totals.get("S5", 0) + SR.s5_iterator_reuse(chk, funcs)
        totals["S6"] = totals.get("S6", 0) + SR.s6_handover(chk, db, rq, funcs)
    floors = {"S1": 26, "S2": 2, "S3": 2, "S4": 6, "S5": 3, "S6": 1, "S7": 2}
    for r, fl in floors.items():
        if totals.get(r, 0) < fl:
            chk.analysis_broken("%s: only %d instances (floor %d)" % (r, totals.get(r, 0), fl))
    n = rel.check(chk, db, ["_set/static_set.hpp", "_flat_set/flat_set.hpp"])
    if n < 10:
        chk.analysis_broken("REL: only %d set operators modelled" % n)
    mx = [x for x in winst.set_matrix(tier == "quick") if "inplace_vector" not in x[0]]
    winst.run_matrix(chk, "W-INST", "c09_inst", mx, tier == "quick")
    chk.extra["functions_analysed"] = sum(len([f for f in db.funcs if f.get("record") == rq]) for rq in SETS)
    chk.assumptions += [
        "that lower_bound/upper_bound themselves are right is property C06",
        "sizes, iteration order and returned iterators after histories of operations are run-time values",
        "flat_set over inplace_vector is not instantiated: inplace_vector lacks the sequence-container members "
        "(erase/emplace/rbegin) flat_set needs, which is an API gap of inplace_vector (C01), not a set defect",
    ]
