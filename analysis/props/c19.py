"""C19 - multidimensional and contiguous views address exactly the elements they span (clauses)."""
import re
import json

from .. import astx
from .. import db as D
from .. import prog as P
from .. import terms as T
from ..rules import guard as G
from ..rules import rel
from . import c05
from witness import wit, c19 as gen

META = ("W-TYPES / W-FAIL (return types and extents of span::first/last/subspan/as_bytes, conversions between static and "
        "dynamic spans vs std::span; compile-fail witnesses for out-of-range static counts; rank/rank_dynamic/static_extent/"
        "storage of extents for every static/dynamic pattern of rank 0-4, mapping properties), SUB (the pointer/length pairs "
        "built by span::first/last/subspan lie inside [data(), data()+size()) under the documented preconditions, proved over "
        "the finite model space), MIRROR (layout_left and layout_right are mirror images: strides from forward resp. reverse "
        "extent products, operator() is the fold of index*stride over the same index sequence), GUARD (span and stride(r) "
        "contracts as in C05), REL (array and layout mapping operators)",
        ["clang 14 parser/sema (tetl-ast)", "g++ 12 / libstdc++ 12 <span>", "closed forms of [mdspan.extents]/[mdspan.layout]"])
SPAN = "etl::span"


def ctrsized_rule(chk, db):
    """CTRSIZED: an mdarray built from a mapping owns `required_span_size()` elements. Its constructors size the container in a
    lambda: `if constexpr (is_constructible_v<Container, size_t ...>) return container_type(size ...); else return <fixed-size
    form>;`. The unsized return is reached only when the container cannot be given a size: every condition that must be FALSE
    to get there is the single atom `is_constructible_v<Container, size_t...>`; a conjunction (`rank() > 0 and ...`) lets a
    resizable container of a rank-0 array stay empty although the mapping addresses one element."""
    from ..rules import extra10 as _X10
    n = 0
    for f in db.funcs:
        if not (f.get("record") or "").startswith("etl::mdarray"):
            continue
        # the sizing code: a lambda in a constructor's initialiser list, or a private helper the initialiser calls
        bodies = []
        if f["n"] == "<ctor>":
            for it in f.get("inits") or []:
                if it.get("e"):
                    bodies += [y for y in astx.walk_expr(it["e"], into_lambdas=False) if y.get("k") == "lambda"]
        elif f.get("body") is not None and f.get("kind") != "ctor":
            bodies.append({"body": f["body"]})
        for _it in [0]:
            for lam in bodies:
                if lam.get("body") is None:
                    continue
                sized = [r for r, conds in _X10.guarded_nodes({"body": lam["body"]}, lambda x: x.get("k") == "return")
                         if any(y.get("k") == "call" and astx.callee(y)[0] == "required_span_size" for y in astx.walk_expr(r.get("e") or {}))]
                if not sized:
                    continue
                n += 1
                construct = astx.sig(f)
                chk.instance("CTRSIZED")
                bad = unknown = None
                for r, conds in _X10.guarded_nodes({"body": lam["body"]}, lambda x: x.get("k") == "return"):
                    if r in sized:
                        continue
                    neg = _X10.negative_conditions(conds)
                    if not neg:
                        unknown = "an unsized return is not in the else-branch of a test"
                        continue
                    for c in neg:
                        if re.search(r"\band\b|&&|\bor\b|\|\|", c) and "constructible" in c:
                            bad = (r, c)
                        elif "constructible" not in c:
                            unknown = "the test `%s` is not a constructibility test" % c
                chk.obligation("CTRSIZED", construct, False if bad else (None if unknown else True))
                if bad:
                    chk.violation("CTRSIZED", construct, "container-left-unsized", "%s: `return %s` is reached whenever `%s` is false: that includes "
                                  "containers that can be given a size, which then stay default-constructed although the mapping's "
                                  "required_span_size() elements are addressed (rank 0: one element)" % (
                                      astx.loc(f, bad[0]), astx.show(bad[0].get("e"), 30), bad[1]), {"where": astx.loc(f)})
                elif unknown:
                    chk.unknown_instance("CTRSIZED", construct, unknown)
    return n


def subempty_rule(chk, db):
    """SUBEMPTY: first / last / subspan return a view *into* the span even when it is empty: `last(0)` is the empty range at
    `data() + size()`, not a default-constructed span (`data() == nullptr`): iterators of the result compare with those of the
    source, and `subspan(size(), 0)`, `last(0)`, `first(0)` are the positions algorithms split ranges at. Every return of these
    members is a construction with arguments."""
    n = 0
    for f in db.funcs_of_record(SPAN):
        if f["n"] not in ("first", "last", "subspan") or f.get("body") is None:
            continue
        n += 1
        construct = astx.sig(f)
        chk.instance("SUBEMPTY")
        bad = None
        for st in astx.walk_stmts(f["body"]):
            if st.get("k") != "return" or st.get("e") is None:
                continue
            e = astx.strip_casts(st["e"])
            if e is not None and e.get("k") in ("initlist", "construct") and not [a for a in e.get("a", []) if a is not None]:
                bad = st
        chk.obligation("SUBEMPTY", construct, bad is None)
        if bad is not None:
            chk.violation("SUBEMPTY", construct, "detached-empty-view", "%s: `return %s` hands out a default-constructed span (data() == nullptr) "
                          "instead of the empty view at the requested position inside the source" % (astx.loc(f, bad), astx.show(bad.get("e"), 20)),
                          {"where": astx.loc(f)})
    if n < 3:
        chk.analysis_broken("SUBEMPTY: fewer than 3 sub-view members of span found (floor 3)")
    return n


def sub_rule(chk, db, table):
    """first/last/subspan: the constructed (pointer, count) stays inside the span"""
    n = 0
    for f in db.funcs_of_record(SPAN):
        if f["n"] not in ("first", "last", "subspan"):
            continue
        ent = None
        for e in table:
            try:
                if any(x is f for x in c05.select(db, e)):
                    ent = e
            except Exception:
                pass
        sites = []

        def hook(builder, fr, out, node, access, stmt):
            if access != "node" or fr.ctx.this_name != "this":
                return
            if node.get("k") not in ("construct", "initlist"):
                return
            args = node.get("a", [])
            if len(args) == 1 and args[0] is not None and args[0].get("k") == "initlist":
                args = args[0]["a"]
            if len(args) != 2:
                return
            ot = P.simplify(builder.term(args[0], fr))
            off = ot if P.pos_object(ot) == "this" else None
            if off is None:
                return
            cnt = P.simplify(builder.term(args[1], fr))
            sz = T.size_of("this", fr.ctx)
            t = ("and", ("cmp", "<=", off, sz), ("cmp", "<=", cnt, ("-", sz, off)))
            info = builder.info(fr, stmt, what="sub-span [%s, +%s)" % (T.show(off), T.show(cnt)))
            sites.append(info)
            out.append(("oblige", t, dict(info, site=len(sites) - 1)))
        b = P.Builder(db, max_depth=2, oblige_hook=hook)
        prog, ctx = b.build(f)
        if not sites:
            continue
        n += 1
        chk.instance("SUB")
        construct = astx.sig(f)
        assume = []
        if ent:
            from .. import spec as S
            try:
                assume = [S.parse(ent["req"], f, ctx=T.TermCtx(f, db))]
            except Exception:
                assume = []
        atoms = P.prog_atoms(prog)
        for a in assume:
            T.atoms(a, atoms)
        entry = dict((k, v) for k, v in atoms.items() if "#" not in k and "@" not in k)
        for tp in f.get("tparams") or []:
            if tp.get("k") == "nttp" and tp.get("n") in entry:
                entry[tp["n"]] = "u"        # the member's own Offset / Count range over all of size_t (Count may be dynamic_extent)
        bad = unk = None
        nm = 0
        for sc in G.sort_choices(entry):
            ai = dict((k, sc.get(k, v)) for k, v in entry.items())
            pi = G.inst_prog(prog, sc)
            invs = [T.instantiate_sorts(a, sc) for a in assume]
            consts = set()
            for a in invs:
                T.constants_in(a, consts)
            for nd in P.flatten(pi):
                if nd[0] in ("guard", "branch", "oblige"):
                    T.constants_in(nd[1], consts)        # npos in `Count == dynamic_extent` must be in the domain
            for m in T.models(ai, invs, constants=consts):
                nm += 1
                tr = P.run(pi, m)
                for ev in tr.events:
                    if ev[0] == "oblige":
                        if ev[2] is False and not ev[3] and bad is None:
                            bad = T.show_model(m)
                        elif ev[2] is None and unk is None:
                            unk = T.show_model(m)
        chk.obligation("SUB", construct, False if bad else (None if unk else True), evaluations=nm)
        if bad:
            chk.violation("SUB", construct, "leaves-span", "%s: the sub-span built here can leave [data(), data()+size()): witness %s" % (astx.loc(f), bad),
                          {"where": astx.loc(f), "witness": bad})
        elif unk:
            chk.unknown_instance("SUB", construct, "not decidable for " + unk)
        else:
            chk.sample({"rule": "SUB", "member": construct, "models": nm, "sites": [s["what"] for s in sites]})
    if n < 5:
        chk.analysis_broken("SUB: only %d span sub-view members analysed (floor 5)" % n)


def mirror_rule(chk, db):
    """layout_left uses forward products, layout_right reverse products; operator() folds index*stride(Is)"""
    want = {"etl::layout_left::mapping": "fwd_prod_of_extents", "etl::layout_right::mapping": "rev_prod_of_extents"}
    n = 0
    for rq, prod in want.items():
        other = [v for k, v in want.items() if k != rq][0]
        for name in ("stride", "required_span_size"):
            for f in db.by_q.get(rq + "::" + name, []):
                n += 1
                chk.instance("MIRROR")
                calls = [astx.callee(x)[0] for x in astx.all_exprs(f) if x.get("k") == "call"]
                ok = prod in calls and other not in calls
                if name == "required_span_size":
                    ok = (prod in calls or "fwd_prod_of_extents" in calls) and True
                chk.obligation("MIRROR", astx.sig(f), ok)
                if not ok:
                    chk.violation("MIRROR", astx.sig(f), "wrong-product", "%s: %s of %s must be built on %s (calls: %s)" % (
                        astx.loc(f), name, rq, prod, sorted(set(c for c in calls if c and "prod" in c))), {"where": astx.loc(f)})
        for f in db.by_q.get(rq + "::operator()", []) + (db.by_q.get("etl::layout_stride::mapping::operator()", []) if prod == "fwd_prod_of_extents" else []):
            n += 1
            chk.instance("MIRROR")
            # the fold may live in a private helper of the mapping that operator() calls
            bodies = [f]
            for x in astx.all_exprs(f, into_lambdas=True):
                if x.get("k") == "call" and astx.callee(x)[0]:
                    for g in db.by_q.get(rq + "::" + astx.callee(x)[0], []):
                        if g is not f and g.get("body") is not None and g not in bodies and g["n"] not in ("stride", "extents", "required_span_size"):
                            bodies.append(g)
            fold = [x for g in bodies for x in astx.all_exprs(g, into_lambdas=True) if x.get("k") == "fold"]
            ok = False
            seen_stride_fold = False
            for fo in fold:
                pat = fo.get("l") if fo.get("l") is not None and fo["l"].get("k") != "int" else fo.get("r")
                txt = astx.show(pat, 200) if pat else ""
                tx = txt.replace(" ", "")
                if "stride(" in tx or "_strides[" in tx:
                    seen_stride_fold = True
                if fo["op"] == "+" and "*" in txt and ("stride(Is)" in tx or "_strides[Is]" in tx):
                    ok = True
            if not ok and not seen_stride_fold:
                # not a fold: unroll the body symbolically for ranks 1..4 and compare with the layout's closed form
                from ..rules import polymap as PM
                layout = "left" if "layout_left" in f["q"] else ("right" if "layout_right" in f["q"] else None)
                verdict, why = None, "no fold over stride() found in operator() or the helpers it calls"
                if layout:
                    try:
                        for R in (1, 2, 3, 4):
                            got = PM.evaluate(f, layout, R)
                            spec_poly = PM.closed_form(layout, R)
                            if not got == spec_poly:
                                verdict = False
                                why = "for rank %d operator() computes `%s`; layout_%s is `%s`" % (R, got, layout, spec_poly)
                                break
                        else:
                            verdict, why = True, ""
                    except PM.NotModelled as ex:
                        verdict, why = None, "operator() is neither a fold nor a loop in the modelled subset (%s)" % ex
                chk.obligation("MIRROR", astx.sig(f), verdict, evaluations=4)
                if verdict is False:
                    chk.violation("MIRROR", astx.sig(f), "not-the-layout-formula", "%s: %s" % (astx.loc(f), why), {"where": astx.loc(f)})
                elif verdict is None:
                    chk.unknown_instance("MIRROR", astx.sig(f), why)
                continue
            chk.obligation("MIRROR", astx.sig(f), ok)
            if not ok:
                chk.violation("MIRROR", astx.sig(f), "not-index-times-stride", "%s: operator() is not the sum fold (index * stride(Is) + ...)" % astx.loc(f),
                              {"where": astx.loc(f)})
    if n < 6:
        chk.analysis_broken("MIRROR: only %d layout members found" % n)


def guard_rule(chk, db):
    with open(c05.SPEC) as fh:
        table = [e for e in json.load(fh)["entries"] if e["id"].startswith(("span.", "mdspan."))]
    n = 0
    for ent in table:
        for f in c05.select(db, ent):
            n += 1
            chk.instance("GUARD")
            r = G.check_operation(db, f, ent["req"], kind=ent.get("kind", "A"))
            for rule, status, w in (("G1", r.g1, r.g1_witness), ("G2", r.g2, r.g2_witness), ("G3", r.g3, r.g3_witness)):
                chk.obligation(rule, astx.sig(f), True if status == "PROVED" else (None if status == "UNKNOWN" else False), evaluations=max(1, r.models))
                if status in ("REFUTED", "ABSENT"):
                    chk.violation(rule, astx.sig(f), {"G1": "weak", "G2": "spurious", "G3": "order"}[rule],
                                  "%s: contract rule %s fails for `%s`: %s" % (astx.loc(f), rule, ent["req"], json.dumps(w)), {"where": astx.loc(f)})
    if n < 10:
        chk.analysis_broken("GUARD: only %d span/mdspan operations matched the contract table" % n)


EXTENTS = "etl::extents"


def dynslot_rule(chk, db):
    """DYNSLOT: etl::extents stores one slot per *dynamic* extent. (a) An access `_extents[_dynamic_index(i)]` is dominated
    by a test that this type's own static_extent(i) is dynamic_extent (a test on another object's pattern selects the
    wrong slots). (b) A bulk copy into `_extents` happens only where the number of values is known to be rank_dynamic()."""
    from ..rules import sets as SP
    fs = [f for f in db.funcs if f.get("record") == EXTENTS and f.get("body") is not None]
    if not fs:
        chk.analysis_broken("DYNSLOT: etl::extents no longer exists")
        return
    n = 0

    def own_dynamic_test(c, taken, env=None):
        """cond establishes static_extent(x) == dynamic_extent for this type"""
        env = env or {}
        c = astx.strip_casts(c)
        if c is None:
            return None
        if c.get("k") == "un" and c["op"] == "!":
            return own_dynamic_test(c["e"], not taken, env)
        if c.get("k") == "call" and astx.callee(c)[0] and (astx.callee(c)[3] != "member" or astx.is_this(astx.callee(c)[2])):
            # a private predicate of the same class (`_is_dynamic(i)`): its one-line return is the test
            hs = [g for g in db.methods(EXTENTS, astx.callee(c)[0]) if g.get("body") is not None and len(g["params"]) == len(c["a"])]
            if len(hs) == 1:
                from .. import terms as _T
                r = _T.one_line_return(hs[0])
                if r is not None:
                    return own_dynamic_test(r, taken, env)
        if c.get("k") == "bin" and c["op"] in ("==", "!="):
            sides = [astx.strip_casts(c["l"]), astx.strip_casts(c["r"])]
            sides = [astx.strip_casts(env[x["n"]]) if x is not None and x.get("k") == "ref" and x.get("n") in env else x for x in sides]
            call = [x for x in sides if x is not None and x.get("k") == "call" and astx.callee(x)[0] == "static_extent"]
            dyn = [x for x in sides if x is not None and x.get("k") == "ref" and x.get("n") == "dynamic_extent"]
            if len(call) == 1 and len(dyn) == 1:
                recv = astx.callee(call[0])[2]
                own = astx.callee(call[0])[3] != "member" or astx.is_this(recv)
                holds = (c["op"] == "==") == taken
                return ("own" if own else "other", holds)
        return None

    for f in fs:
        uses_slot = any(x.get("k") == "call" and astx.callee(x)[0] == "_dynamic_index" for x in astx.all_exprs(f))
        bulk = [x for x in astx.all_exprs(f) if x.get("k") == "call" and astx.callee(x)[0] in ("transform", "copy", "copy_n", "move", "fill")
                and any("_extents" in astx.show(a, 40) for a in x["a"])]
        # element-wise stores `_extents[i] = v[i]` whose subscript is a plain counter (slot i receives value i)
        plain = [x for x in astx.all_exprs(f) if x.get("k") == "bin" and x["op"] == "=" and astx.strip_casts(x["l"]) is not None
                 and astx.strip_casts(x["l"]).get("k") == "idx" and "_extents" in astx.show(astx.strip_casts(x["l"])["b"], 30)
                 and not any(y.get("k") == "call" and astx.callee(y)[0] in ("_dynamic_index", "_dynamic_index_inv")
                             for y in astx.walk_expr(astx.strip_casts(x["l"])["i"]))
                 and not any(y.get("k") == "call" and astx.callee(y)[0] in ("_dynamic_index", "_dynamic_index_inv") for y in astx.walk_expr(x["r"]))
                 and astx.int_value(astx.strip_casts(astx.strip_casts(x["l"])["i"])) is None]
        if f["n"] in ("_dynamic_index", "_dynamic_index_inv") or not (uses_slot or bulk or plain):
            continue
        construct = astx.sig(f)
        n += 1
        chk.instance("DYNSLOT")
        bad = None
        span_params = set(p0["n"] for p0 in f["params"] if "span<" in p0["ty"] and ", N>" in p0["ty"].replace(" ,", ","))
        two_arity = bool(span_params) and f["n"] == "<ctor>"
        for p in SP.paths(f["body"]):
            own_dyn = False
            other_dyn = False
            counted = False
            arity_known = False
            env = {}
            for ev in p:
                if ev[0] == "decl" and ev[1].get("init") is not None:
                    env[ev[1]["n"]] = ev[1]["init"]
                if ev[0] == "cond":
                    r = own_dynamic_test(ev[1], ev[2], env)
                    if r is not None and r[1]:
                        if r[0] == "own":
                            own_dyn = True
                        else:
                            other_dyn = True
                    txt = astx.show(ev[1], 80).replace(" ", "")
                    if ev[2] and ("==rank_dynamic()" in txt or "rank_dynamic()==" in txt) and "!=" not in txt:
                        counted = True
                    if (("N==" in txt or "==N" in txt) and ("rank_dynamic()" in txt or "rank()" in txt)):
                        arity_known = True
                for e in SP.event_exprs(ev):
                    if two_arity and not arity_known and bad is None and ev[0] != "cond" and any(
                            y.get("k") == "ref" and y.get("n") in span_params for y in astx.walk_expr(e, into_lambdas=True)):
                        bad = (e, "`%s` reads the argument although the constructor is enabled for both rank() and rank_dynamic() values and "
                                  "this path has not established which of the two it received" % astx.show(e, 60))
                    for x in astx.walk_expr(e, into_lambdas=True):
                        if x.get("k") == "idx" and "_extents" in astx.show(x["b"], 30) and any(
                                y.get("k") == "call" and astx.callee(y)[0] == "_dynamic_index" for y in astx.walk_expr(x["i"])):
                            if not own_dyn and bad is None:
                                bad = (x, "`%s` is reached without a test that this type's static_extent is dynamic_extent%s" % (
                                    astx.show(x, 50), " (the test on the path inspects another object's pattern)" if other_dyn else ""))
                        if any(x is b for b in plain) and not counted and bad is None:
                            bad = (x, "`%s` stores value i in dynamic slot i; the constructor is also enabled for rank() values, where "
                                      "value i belongs to extent i and the slot of a dynamic extent is the number of dynamic extents in "
                                      "front of it" % astx.show(x, 50))
                        if any(x is b for b in bulk) and not counted and bad is None:
                            bad = (x, "`%s` copies as many values as the argument holds into the %s dynamic slots; the constructor is also "
                                      "enabled for rank() values" % (astx.show(x, 60), "rank_dynamic()"))
        chk.obligation("DYNSLOT", construct, bad is None)
        if bad:
            chk.violation("DYNSLOT", construct, "dynamic-slot", "%s: %s" % (astx.loc(f, bad[0]), bad[1]), {"where": astx.loc(f)})
    # (c) the slot array of *another* extents object is never read directly: its slots are numbered by that type's own dynamic
    # positions, which differ from this type's whenever the static/dynamic patterns differ (extent(i) is the common currency)
    fields = set(fd["n"] for fd in (db.record(EXTENTS) or {}).get("fields", []))
    for f in fs:
        foreign = [x for x in astx.all_exprs(f, into_lambdas=True) if x.get("k") == "mem" and x.get("n") in fields
                   and x.get("b") is not None and not astx.is_this(astx.strip_casts(x.get("b")))]
        if not foreign and not any(p0 for p0 in f["params"] if "extents<" in p0["ty"]):
            continue
        construct = astx.sig(f) + " [foreign slots]"
        chk.instance("DYNSLOT")
        chk.obligation("DYNSLOT", construct, not foreign)
        for x in foreign[:1]:
            chk.violation("DYNSLOT", construct, "foreign-slot-array", "%s: `%s` reads the slot array of another extents object; its slots "
                          "follow that type's dynamic positions, not this one's (use extent(i))" % (astx.loc(f, x), astx.show(x, 50)),
                          {"where": astx.loc(f)})
    if n < 3:
        chk.analysis_broken("DYNSLOT: only %d members of etl::extents touch the dynamic slots (floor 3)" % n)


def mapped_rule(chk, db):
    """MAPPED: every element access of mdspan / mdarray takes its offset from the layout mapping. The offset handed to the
    accessor (`_acc.access(handle, off)`, `_acc.offset(handle, off)`) or used to subscript the owned container is, after
    resolving const locals and casts, a call of the mapping member on every `if constexpr` alternative; an access that
    bypasses the mapping addresses the wrong element for every layout that is not the identity."""
    total = 0
    for rq in ("etl::mdspan", "etl::mdarray"):
        rec = db.record(rq)
        if not rec:
            chk.analysis_broken("MAPPED: %s no longer exists" % rq)
            continue
        maps = set(fd["n"] for fd in rec["fields"] if "mapping" in fd["ty"])
        accs = set(fd["n"] for fd in rec["fields"] if "accessor" in fd["ty"])
        ctrs = set(fd["n"] for fd in rec["fields"] if "container" in fd["ty"])
        if not maps or not (accs or ctrs):
            chk.analysis_broken("MAPPED: the mapping / accessor / container members of %s are no longer recognisable" % rq)
            continue
        n = 0
        for f in db.funcs:
            if f.get("record") != rq or f.get("body") is None:
                continue
            inits = {}
            for st in astx.walk_stmts(f.get("body")):
                if st.get("k") == "decl":
                    for v in st["vars"]:
                        if "other" not in v and v.get("init") is not None:
                            inits[v["n"]] = v["init"]

            def from_mapping(e, depth=0):
                e = astx.strip_casts(e)
                while e is not None and e.get("k") in ("paren",) or (e is not None and e.get("k") in ("construct", "initlist") and len(e.get("a", [])) == 1):
                    e = astx.strip_casts(e.get("e") if e.get("k") == "paren" else e["a"][0])
                if e is None or depth > 4:
                    return False
                if e.get("k") == "ref" and e.get("n") in inits:
                    return from_mapping(inits[e["n"]], depth + 1)
                if e.get("k") == "cond":
                    return from_mapping(e["t"], depth + 1) and from_mapping(e["f"], depth + 1)
                if e.get("k") == "call":
                    fn = astx.strip_casts(e["f"])
                    if fn is not None and fn.get("k") in ("mem", "ref") and fn.get("n") in maps:
                        return True
                    nm, q, recv, kind = astx.callee(e)
                    r = astx.strip_casts(recv) if recv is not None else None
                    if kind == "member" and nm == "operator()" and r is not None and r.get("n") in maps:
                        return True
                    if nm == "mapping" and not e["a"]:
                        return False
                    # this->mapping()(i...)
                    if fn is not None and fn.get("k") == "call" and astx.callee(fn)[0] == "mapping":
                        return True
                return False
            sites = []
            for x in astx.all_exprs(f, into_lambdas=True):
                if x.get("k") == "call" and astx.callee(x)[3] == "member" and astx.callee(x)[0] in ("access", "offset") and len(x["a"]) == 2:
                    r = astx.strip_casts(astx.callee(x)[2])
                    if r is not None and r.get("n") in accs:
                        sites.append((x, x["a"][1]))
                if x.get("k") == "idx":
                    b = astx.strip_casts(x["b"])
                    if b is not None and b.get("k") in ("mem", "ref") and b.get("n") in ctrs:
                        sites.append((x, x["i"]))
            for x, off in sites:
                n += 1
                label = "%s :: `%s`" % (astx.sig(f), astx.show(x, 60))
                chk.instance("MAPPED")
                ok = from_mapping(off)
                chk.obligation("MAPPED", label, ok)
                if not ok:
                    chk.violation("MAPPED", label, "bypasses-mapping", "%s: the offset `%s` of this element access is not produced by the layout "
                                  "mapping `%s`" % (astx.loc(f, x), astx.show(off, 60), sorted(maps)[0]), {"where": astx.loc(f)})
        if n < 1:
            chk.analysis_broken("MAPPED: no element access found in %s (the rule lost its subject)" % rq)
        total += n
    return total


def fullprod_rule(chk, db):
    """FULLPROD: size() / required_span_size() of mdspan, mdarray and the contiguous layout mappings multiply *all* extents: the
    argument of `fwd_prod_of_extents` / `rev_prod_of_extents` there is `rank()` (for rev: 0), not `rank_dynamic()` or a
    literal -- the product of a prefix counts only part of the index space."""
    n = 0
    for f in db.funcs:
        if f.get("body") is None or not (f["file"].startswith("_mdspan/") or f["file"].startswith("_mdarray/")):
            continue
        if f["n"] not in ("size", "required_span_size", "empty"):
            continue
        for x in astx.all_exprs(f, into_lambdas=True):
            if x.get("k") != "call" or astx.callee(x)[0] not in ("fwd_prod_of_extents", "rev_prod_of_extents") or len(x["a"]) != 1:
                continue
            n += 1
            label = "%s :: `%s`" % (astx.sig(f), astx.show(x, 60))
            chk.instance("FULLPROD")
            a = astx.strip_casts(x["a"][0])
            fwd = astx.callee(x)[0] == "fwd_prod_of_extents"
            if fwd:
                ok = a is not None and a.get("k") == "call" and astx.callee(a)[0] == "rank" and not a["a"]
            else:
                ok = a is not None and astx.int_value(a) == 0
            chk.obligation("FULLPROD", label, ok)
            if not ok:
                chk.violation("FULLPROD", label, "partial-product", "%s: %s() multiplies the extents %s `%s`, not all rank() of them" % (
                    astx.loc(f, x), f["n"], "below index" if fwd else "above index", astx.show(a, 30)), {"where": astx.loc(f)})
    # SIZESRC: the number of elements of an mdarray / mdspan is a function of its extents alone; the container (or the data
    # handle) may hold more than the mapping addresses, so its size is not the answer
    for f in db.funcs:
        if f.get("body") is None or f["n"] != "size" or f.get("record") not in ("etl::mdarray", "etl::mdspan") or f["params"]:
            continue
        label = "%s :: source of the element count" % astx.sig(f)
        chk.instance("SIZESRC")
        foreign = None
        from_extents = False
        for x in astx.all_exprs(f, into_lambdas=True):
            if x.get("k") == "call":
                nm, q, recv, kind = astx.callee(x)
                r0 = astx.strip_casts(recv) if recv is not None else None
                if nm in ("fwd_prod_of_extents", "rev_prod_of_extents", "extent", "extents", "static_extent"):
                    from_extents = True
                if nm in ("size", "length", "capacity", "max_size") and r0 is not None and r0.get("k") == "mem" and r0.get("dk") == "field" \
                        and not re.search(r"map|ext", r0.get("n", ""), re.I):
                    foreign = x
        ok = None if (foreign is None and not from_extents) else (foreign is None)
        chk.obligation("SIZESRC", label, ok)
        if foreign is not None:
            chk.violation("SIZESRC", label, "size-from-container", "%s: size() returns `%s`: the container may hold more elements than "
                          "the extents span (any container with size() >= required_span_size() is accepted), so size() and empty() "
                          "disagree with the index space and with the mdspan view of the same array" % (astx.loc(f, foreign), astx.show(foreign, 40)),
                          {"where": astx.loc(f)})
        elif ok is None:
            chk.unknown_instance("SIZESRC", label, "neither an extents product nor a container size recognised")
    # EMPTYANY: a multidimensional view is empty when *any* extent is zero (the product of the extents is zero)
    for f in db.funcs:
        if f.get("body") is None or f["n"] != "empty" or f.get("record") not in ("etl::mdarray", "etl::mdspan") or f["params"]:
            continue
        label = "%s :: quantifier over the extents" % astx.sig(f)
        chk.instance("EMPTYANY")
        verdict = None
        node = None
        for x in astx.all_exprs(f, into_lambdas=True):
            if x.get("k") == "fold" and any(y.get("k") == "call" and astx.callee(y)[0] in ("extent", "static_extent")
                                            for y in astx.walk_expr(x)):
                node = x
                verdict = x.get("op") in ("||", "or")
            if x.get("k") == "call" and astx.callee(x)[0] in ("all_of", "none_of") and "extent" in astx.show(x, 200):
                node, verdict = x, False
            if x.get("k") == "call" and astx.callee(x)[0] == "any_of" and "extent" in astx.show(x, 200):
                node, verdict = x, True
        for x in astx.all_exprs(f, into_lambdas=True):
            if x.get("k") == "call":
                nm, q, recv, kind = astx.callee(x)
                r0 = astx.strip_casts(recv) if recv is not None else None
                if nm in ("empty", "size") and r0 is not None and r0.get("k") == "mem" and r0.get("dk") == "field" and \
                        not re.search(r"map|ext", r0.get("n", ""), re.I):
                    node, verdict = x, "container"
        if verdict is None:
            if any(x.get("k") == "call" and astx.callee(x)[0] in ("size", "required_span_size") for x in astx.all_exprs(f)):
                verdict = True
        if verdict == "container":
            chk.obligation("EMPTYANY", label, False)
            chk.violation("EMPTYANY", label, "emptiness-from-container", "%s: empty() answers `%s`: the container may be non-empty (an array "
                          "always is) although an extent is zero, so empty() disagrees with size() == 0 and with the mdspan view"
                          % (astx.loc(f, node), astx.show(node, 40)), {"where": astx.loc(f)})
            continue
        chk.obligation("EMPTYANY", label, verdict)
        if verdict is False:
            chk.violation("EMPTYANY", label, "all-instead-of-any", "%s: `%s` calls the view empty only when *every* extent is zero; a "
                          "single zero extent already makes size() zero" % (astx.loc(f, node), astx.show(node, 70)), {"where": astx.loc(f)})
        elif verdict is None:
            chk.unknown_instance("EMPTYANY", label, "neither size() == 0 nor a quantifier over the extents recognised")
    if n < 2:
        chk.analysis_broken("FULLPROD: only %d total-size products found in mdspan / mdarray / layout mappings (floor 2)" % n)


def prodloop_rule(chk, db):
    """PRODLOOP: a loop that accumulates a product (or sum) of extents / strides indexes them with its own counter:
    `for (e = lo; e < hi; ++e) result *= extent(e)`. An index that does not mention the counter multiplies the same factor
    in every iteration."""
    from ..rules import iters as IT
    n = 0
    for f in db.funcs:
        if f.get("body") is None or not (f["file"].startswith("_mdspan/") or f["file"].startswith("_mdarray/") or f["file"].startswith("_linalg/layout")):
            continue
        for lp in [st for st in astx.walk_stmts(f["body"]) if st.get("k") == "for"]:
            counter = None
            if lp.get("init") is not None and lp["init"].get("k") == "decl":
                for v in lp["init"]["vars"]:
                    counter = v["n"]
            if counter is None and lp.get("inc") is not None:
                for x in astx.walk_expr(lp["inc"]):
                    if x.get("k") == "un" and x["op"] in ("++", "--") and IT.ref_name(x["e"]):
                        counter = IT.ref_name(x["e"])
            if counter is None:
                continue
            for x in astx.walk_stmt_exprs(lp.get("body"), into_lambdas=False):
                if x.get("k") != "bin" or x["op"] not in ("*=", "+="):
                    continue
                idx = [y for y in astx.walk_expr(x["r"]) if (y.get("k") == "call" and astx.callee(y)[0] in ("extent", "static_extent", "stride") and len(y["a"]) == 1)
                       or (y.get("k") == "idx")]
                if not idx:
                    continue
                n += 1
                label = "%s :: `%s` in the loop over `%s`" % (astx.sig(f), astx.show(x, 50), counter)
                chk.instance("PRODLOOP")
                ok = all(any(IT.ref_name(z) == counter for z in astx.walk_expr(y["a"][0] if y.get("k") == "call" else y["i"])) for y in idx)
                if x["op"] == "*=" and ok:
                    # the empty product is 1: the accumulator starts at 1 and a literal returned by the same function
                    # (the rank-0 special case) is 1 as well
                    acc = IT.ref_name(x["l"])
                    bad_lit = None
                    for st in astx.walk_stmts(f["body"]):
                        if st.get("k") == "decl":
                            for v in st["vars"]:
                                if v["n"] == acc and v.get("init") is not None:
                                    i0 = astx.strip_casts(v["init"])
                                    while i0 is not None and i0.get("k") in ("construct", "initlist") and len(i0.get("a", [])) == 1:
                                        i0 = astx.strip_casts(i0["a"][0])
                                    if i0 is not None and astx.int_value(i0) is not None and astx.int_value(i0) != 1:
                                        bad_lit = (st, astx.int_value(i0), "starts the product at")
                        if st.get("k") == "return" and st.get("e") is not None:
                            r0 = astx.strip_casts(st["e"])
                            while r0 is not None and r0.get("k") in ("construct", "initlist") and len(r0.get("a", [])) == 1:
                                r0 = astx.strip_casts(r0["a"][0])
                            if r0 is not None and astx.int_value(r0) is not None and astx.int_value(r0) != 1:
                                bad_lit = (st, astx.int_value(r0), "returns")
                    if bad_lit is not None:
                        chk.obligation("PRODLOOP", label, False)
                        chk.violation("PRODLOOP", label, "empty-product", "%s: %s %s %d; a product over no extents (rank 0, or an empty index range) is 1" % (
                            astx.loc(f, bad_lit[0]), f["n"], bad_lit[2], bad_lit[1]), {"where": astx.loc(f)})
                        continue
                chk.obligation("PRODLOOP", label, ok)
                if not ok:
                    chk.violation("PRODLOOP", label, "index-ignores-counter", "%s: the accumulated factor `%s` does not depend on the loop counter `%s`: "
                                  "every iteration uses the same extent" % (astx.loc(f, x), astx.show(x["r"], 40), counter), {"where": astx.loc(f)})
    return n


def transpose_call_rule(chk, db):
    """TRANSP-CALL: layout_transpose::mapping::operator()(rest..., i, j) is the nested mapping applied to (rest..., j, i)
    ([linalg.transp.layout.transpose]): the last two parameters reach the nested mapping exchanged, the pack unchanged."""
    fs = [f for f in db.funcs if (f.get("record") or "").startswith("etl::linalg::layout_transpose") and f["n"] == "operator()" and f.get("body") is not None]
    if not fs:
        chk.analysis_broken("TRANSP-CALL: layout_transpose::mapping::operator() no longer exists")
        return
    for f in fs:
        ps = [p["n"] for p in f["params"]]
        if len(ps) < 2:
            continue
        i, j = ps[-2], ps[-1]
        construct = astx.sig(f)
        chk.instance("TRANSP-CALL")
        verdict = None
        for x in astx.all_exprs(f):
            if x.get("k") == "call" and len(x["a"]) >= 2:
                fn = astx.strip_casts(x["f"])
                if fn is not None and fn.get("k") in ("mem", "ref") and "nested" in (fn.get("n") or "").lower():
                    a, b = astx.strip_casts(x["a"][-2]), astx.strip_casts(x["a"][-1])
                    an = a.get("n") if a is not None and a.get("k") == "ref" else None
                    bn = b.get("n") if b is not None and b.get("k") == "ref" else None
                    if {an, bn} == {i, j}:
                        verdict = (an, bn) == (j, i)
                        where = x
        chk.obligation("TRANSP-CALL", construct, verdict)
        if verdict is False:
            chk.violation("TRANSP-CALL", construct, "indices-not-exchanged", "%s: the nested mapping is applied to (..., %s, %s): the last two indices "
                          "are not exchanged" % (astx.loc(f, where), i, j), {"where": astx.loc(f)})
        elif verdict is None:
            chk.unknown_instance("TRANSP-CALL", construct, "no call of the nested mapping with the two trailing indices found")


def transpose_rule(chk, db):
    """TRANSP: layout_transpose::mapping::stride(r) is the nested mapping's stride with the last two dimensions exchanged
    ([linalg.transp.layout.transpose]): r == rank-1 -> stride(r-1), r == rank-2 -> stride(r+1), otherwise stride(r).
    The function is evaluated as a decision procedure in the three cases; tests and arguments are linear forms in (r, rank),
    locals and conditional expressions are resolved."""
    from ..rules import slots as SL
    fs = [f for f in db.funcs if (f.get("record") or "").startswith("etl::linalg::layout_transpose") and f["n"] == "stride" and f.get("body") is not None]
    if not fs:
        chk.analysis_broken("TRANSP: layout_transpose::mapping::stride no longer exists")
        return
    f = fs[0]
    r = f["params"][0]["n"]
    construct = astx.sig(f)
    chk.instance("TRANSP")

    class NM(Exception):
        pass

    def run_case(case):
        """case: 1 (r == rank-1), 2 (r == rank-2), 0 (neither); returns the linear form of the nested stride's argument"""
        env = SL.Env(f, False)
        inits = {}

        def lin(e):
            e = astx.strip_casts(e)
            if e is None:
                return None
            if e.get("k") == "paren":
                return lin(e.get("e"))
            if e.get("k") == "ref" and e.get("n") in inits:
                return lin(inits[e["n"]])
            if e.get("k") == "call" and astx.callee(e)[0] == "rank":
                return SL.sym("rank")
            if e.get("k") == "bin" and e["op"] in ("+", "-"):
                x, y = lin(e["l"]), lin(e["r"])
                if x is None or y is None:
                    return None
                return x + y if e["op"] == "+" else x - y
            if e.get("k") == "cond":
                return lin(e["t"]) if truth(e["c"]) else lin(e["f"])
            return SL.lin(e, env)

        def truth(c):
            c = astx.strip_casts(c)
            if c is None:
                raise NM("empty test")
            if c.get("k") == "paren":
                return truth(c.get("e"))
            if c.get("k") == "ref" and c.get("n") in inits:
                return truth(inits[c["n"]])
            if c.get("k") == "un" and c["op"] == "!":
                return not truth(c["e"])
            if c.get("k") == "bin" and c["op"] in ("&&", "||"):
                return (truth(c["l"]) and truth(c["r"])) if c["op"] == "&&" else (truth(c["l"]) or truth(c["r"]))
            if c.get("k") == "bin" and c["op"] in ("==", "!="):
                x, y = lin(c["l"]), lin(c["r"])
                if x is None or y is None:
                    raise NM("test `%s`" % astx.show(c, 40))
                d = x - y
                if d.c.get(r, 0) == -1:
                    d = -d
                if d.c.get(r, 0) == 1 and d.c.get("rank", 0) == -1 and set(d.c) <= {r, "rank"}:
                    eq = (d.k == case)          # r - rank + k == 0  <=>  r == rank - k
                    return eq if c["op"] == "==" else not eq
            raise NM("test `%s`" % astx.show(c, 40))

        def run(st):
            k = st.get("k") if st else None
            if st is None or k == "null":
                return None
            if k == "seq":
                for x in st["s"]:
                    v = run(x)
                    if v is not None:
                        return v
                return None
            if k == "decl":
                for v in st["vars"]:
                    if "other" not in v and v.get("init") is not None:
                        inits[v["n"]] = v["init"]
                return None
            if k == "if":
                br = st.get("then") if truth(st["c"]) else st.get("else")
                return run(br) if br else None
            if k == "return":
                calls = [x for x in astx.walk_expr(st.get("e")) if x.get("k") == "call" and astx.callee(x)[0] == "stride"]
                if len(calls) != 1 or not calls[0]["a"]:
                    raise NM("a return that is not one call of the nested stride")
                v = lin(calls[0]["a"][0])
                if v is None:
                    raise NM("argument `%s`" % astx.show(calls[0]["a"][0], 30))
                return ("ret", v, calls[0])
            if k == "expr":
                return None
            raise NM("statement %s" % k)
        return run(f["body"])

    want = {1: SL.sym(r) - SL.const(1), 2: SL.sym(r) + SL.const(1), 0: SL.sym(r)}
    bad = None
    unknown = None
    for case in (1, 2, 0):
        try:
            res = run_case(case)
        except NM as ex:
            unknown = str(ex)
            break
        if res is None:
            unknown = "no return reached"
            break
        if res[1] != want[case] and bad is None:
            bad = (res[2], case, res[1], want[case])
    chk.obligation("TRANSP", construct, False if bad else (None if unknown else True), evaluations=3)
    if bad:
        chk.violation("TRANSP", construct, "transposed-stride", "%s: for %s the nested stride is taken at `%s`; the transposed layout exchanges the "
                      "last two dimensions: `%s`" % (astx.loc(f, bad[0]), {1: "r == rank()-1", 2: "r == rank()-2", 0: "every other r"}[bad[1]], bad[2], bad[3]),
                      {"where": astx.loc(f)})
    elif unknown:
        chk.unknown_instance("TRANSP", construct, "not a modelled decision procedure: " + unknown)


def transpose_extents_rule(chk, db):
    """TRANSP-EXT: transpose_extents(e) forwards exactly the dynamic extents of the transposed pattern, in its order: evaluated
    as a decision procedure in the four static worlds (extent 0 dynamic?, extent 1 dynamic?)."""
    fs = [f for f in db.by_q.get("etl::linalg::detail::transpose_extents", []) if f.get("body") is not None]
    if not fs:
        chk.analysis_broken("TRANSP-EXT: transpose_extents no longer exists")
        return
    f = fs[0]
    construct = astx.sig(f)
    chk.instance("TRANSP-EXT")
    src = f["params"][0]["n"]
    env = {}

    class NM(Exception):
        pass

    def val(e, w):
        """int / bool value of a static expression in world w = (dyn0, dyn1)"""
        e = astx.strip_casts(e)
        if e is None:
            raise NM("empty")
        k = e.get("k")
        if k == "paren":
            return val(e.get("e"), w)
        if k == "bool":
            return bool(e["v"])
        if astx.int_value(e) is not None:
            return astx.int_value(e)
        if k == "ref" and e.get("n") in env:
            return val(env[e["n"]], w)
        if k == "ref" and e.get("n") == "dynamic_extent":
            return "DYN"
        if k == "un" and e["op"] == "!":
            return not val(e["e"], w)
        if k == "bin" and e["op"] in ("&&", "||"):
            a, b = val(e["l"], w), val(e["r"], w)
            return (a and b) if e["op"] == "&&" else (a or b)
        if k == "bin" and e["op"] in ("==", "!="):
            a, b = val(e["l"], w), val(e["r"], w)
            r = (a == b)
            return r if e["op"] == "==" else not r
        if k == "call":
            nm = astx.callee(e)[0]
            if nm == "static_extent" and len(e["a"]) == 1:
                i = astx.int_value(e["a"][0])
                qual = (e["f"].get("qual") or "") + astx.show(astx.callee(e)[2], 30) if astx.callee(e)[2] is not None else (e["f"].get("qual") or "")
                if i in (0, 1):
                    if "result" in qual or "transpose_extents_t" in qual:
                        i = 1 - i
                    return "DYN" if w[i] else ("S%d" % i)
            if nm == "rank_dynamic" and not e["a"]:
                return int(w[0]) + int(w[1])
            if nm == "rank" and not e["a"]:
                return 2
        raise NM("expression `%s`" % astx.show(e, 40))

    def run(st, w):
        k = st.get("k") if st else None
        if st is None or k == "null":
            return None
        if k == "seq":
            for c in st["s"]:
                r = run(c, w)
                if r is not None:
                    return r
            return None
        if k == "decl":
            for v in st["vars"]:
                if "other" not in v and v.get("init") is not None:
                    env[v["n"]] = v["init"]
            return None
        if k == "if":
            br = st.get("then") if val(st["c"], w) else st.get("else")
            return run(br, w) if br else None
        if k == "return":
            e = astx.strip_casts(st.get("e"))
            args = e.get("a", []) if e is not None and e.get("k") in ("construct", "initlist", "call") else None
            if args is None:
                raise NM("return value")
            if len(args) == 1 and args[0] is not None and args[0].get("k") == "initlist":
                args = args[0]["a"]
            out = []
            for a in args:
                a0 = astx.strip_casts(a)
                if a0 is not None and a0.get("k") == "call" and astx.callee(a0)[0] == "extent" and len(a0["a"]) == 1 and \
                        astx.strip_casts(astx.callee(a0)[2]).get("n") == src:
                    out.append(astx.int_value(a0["a"][0]))
                else:
                    raise NM("argument `%s`" % astx.show(a, 30))
            return ("ret", out)
        if k in ("expr",):
            return None
        raise NM("statement %s" % k)

    bad = None
    unknown = None
    for w in ((True, True), (True, False), (False, True), (False, False)):
        # the transposed pattern is <E1, E0>: its dynamic extents, in order, are old extent 1 (if dynamic) then old extent 0
        want = ([1] if w[1] else []) + ([0] if w[0] else [])
        try:
            r = run(f["body"], w)
        except NM as ex:
            unknown = str(ex)
            break
        got = r[1] if r else None
        if got != want and bad is None:
            bad = (w, got, want)
    chk.obligation("TRANSP-EXT", construct, False if bad else (None if unknown else True), evaluations=4)
    if bad:
        w, got, want = bad
        chk.violation("TRANSP-EXT", construct, "transposed-extents", "%s: for the pattern <%s, %s> the transposed extents are built from %s; "
                      "the dynamic extents of <E1, E0> are %s" % (astx.loc(f), "dynamic" if w[0] else "static", "dynamic" if w[1] else "static",
                                                                   ["e.extent(%s)" % i for i in (got or [])], ["e.extent(%d)" % i for i in want]), {"where": astx.loc(f)})
    elif unknown:
        chk.unknown_instance("TRANSP-EXT", construct, "not a modelled decision procedure: " + unknown)


META_EXTRA = "DYNSLOT (dynamic-extent slots selected by the type's own pattern; bulk copies only for rank_dynamic() values; two-arity constructors establish the arity); TRANSP / TRANSP-EXT (transposed stride and extents evaluated per case); PARAM."
META = (META[0] + " " + META_EXTRA, META[1])
META = (META[0] + " SIB; MAPPED (every element access takes its offset from the mapping); DYNSLOT (c) no direct read of another extents object's slot array.", META[1])
META = (META[0] + ' FULLPROD (total sizes multiply all rank() extents).', META[1])
META = (META[0] + ' PRODLOOP (accumulated extents are indexed by the loop counter).', META[1])
META = (META[0] + ' TRANSP-CALL; polynomial unrolling of loop-shaped layout mappings (ranks 1-4).', META[1])

META = (META[0] + ' SIZESRC (size() of mdarray / mdspan is computed from the extents, never from the container or data handle); EMPTYANY (empty() of mdspan / mdarray is `size() == 0` or an existential over the extents).', META[1])

META = (META[0] + ' PATIDX (extents::_dynamic_index evaluated from its source for every static/dynamic pattern of rank 1-4).', META[1])


META = (META[0] + ' SUBEMPTY (first / last / subspan never return a default-constructed span: an empty sub-view still points into the source).', META[1])


META = (META[0] + ' CTRSIZED (an mdarray constructor leaves its container unsized only when the container cannot be constructed from a size).', META[1])


def run(chk, tier):
    db = D.load("checks")
    from ..rules import params as _PR
    _PR.check(chk, db, ['_span/', '_mdspan/', '_array/', '_linalg/layout'], floor=40)
    from ..rules import sibs as _SB
    _SB.check(chk, db, ['_span/', '_mdspan/', '_mdarray/', '_array/', '_linalg/layout'])      # SIB: cv/ref-qualified overloads of one member agree
    _SB.positive_control(chk)
    plain = D.load("plain")
    with open(c05.SPEC) as fh:
        table = json.load(fh)["entries"]
    sub_rule(chk, plain, table)
    subempty_rule(chk, db)
    if ctrsized_rule(chk, db) < 1:
        chk.unknown_instance("CTRSIZED", "etl::mdarray", "no constructor or helper that sizes the container from the mapping found")
    mirror_rule(chk, db)
    guard_rule(chk, db)
    dynslot_rule(chk, db)
    from ..rules import extra8 as _X8
    if _X8.check_dynamic_index(chk, db) < 1:      # PATIDX
        chk.analysis_broken('PATIDX: etl::extents::_dynamic_index no longer exists')
    mapped_rule(chk, db)
    fullprod_rule(chk, db)
    transpose_call_rule(chk, db)
    if prodloop_rule(chk, db) < 1:
        chk.unknown_instance('PRODLOOP', 'etl::extents', 'no accumulating loop over extents found')
    transpose_rule(chk, db)
    transpose_extents_rule(chk, db)
    rel.check(chk, db, ["_array/array.hpp", "_mdspan/layout_left.hpp", "_mdspan/layout_right.hpp", "_linalg/layout_transpose.hpp"])
    tus, info = gen.generate(tier == "quick")
    res = wit.compile_many(tus, compiler="g++", jobs=16)
    total = 0
    for tu in tus:
        results, unattributed = res[tu.name]
        if tu.name.endswith("_fail"):
            unattributed = []
        wit.judge(chk, "W-FAIL" if tu.name.endswith("_fail") else "W-TYPES", tu, results, unattributed)
        chk.instance("W:" + tu.name, len(tu.obl))
        total += len(tu.obl)
    if total < 300:
        chk.analysis_broken("witnesses: only %d obligations" % total)
    chk.assumptions += [
        "injectivity / in-bounds of the index mapping for all multi-indices is arithmetic over run-time extents and is not decided",
        "libstdc++ 12 has no <mdspan>: extents/mapping expectations come from the closed forms in [mdspan.extents]/[mdspan.layout]",
    ]
