"""C03 - each element is constructed once and destroyed once (rule family LIFE, DESIGN.md 5 C03)."""
import itertools
import re

from .. import astx
from .. import db as D
from .. import prog as P
from ..rules import slots
from ..rules import life as L
from ..rules import guard as G

META = ("LIFE rules L1-L6 over construct/destroy/state tokens extracted from the clang AST of every member function of "
        "the owning types (bounded inlining, all structural paths): destructor destroys, no construction over a live "
        "object, state update follows every construct/destroy, rule of five, self-alias safety, vtable thunk shapes",
        ["clang 14 parser/sema (tetl-ast)", "effect classification analysis/prog.py", "owner list in analysis/props/c03.py"])

# owners by public name; kind: slot (one object, liveness = index/vtable) or vector (many elements, liveness = size)
OWNERS = {
    "etl::variant": "slot",
    "etl::inplace_function<R (Args...), Capacity, Alignment>": "slot",
    "etl::static_vector": "vector",
    "etl::inplace_vector": "vector",
}
# owners that must delegate: no construct/destroy token of their own may appear (they hold a member owner)
DELEGATING = ["etl::optional", "etl::expected", "etl::static_set", "etl::flat_set", "etl::flat_multiset", "etl::stack"]
FLOOR_FUNCS = 40


def has_q(path):
    return any(t.k == "?" for t in path)


def variants_for(db, f):
    return G.build_variants(db, f, {}, max_depth=4)


def analyse_function(chk, db, sigs, owner, kind, rec_q, f, state):
    name = astx.sig(f)
    is_ctor = f.get("kind") == "ctor"
    is_dtor = f.get("kind") == "dtor"
    if f.get("defaulted") or f.get("deleted"):
        return
    for choice, prog, ctx, builder in variants_for(db, f):
        vtxt = G._variant_text(choice)
        paths, trunc = L.token_paths(prog, sigs, state)
        construct = name + vtxt
        chk.instance("LIFE")
        if trunc:
            chk.unknown_instance("LIFE", construct, "more than %d structural paths" % L.MAX_PATHS)
        others = set(p["n"] for p in f["params"])
        public = f.get("access") in ("public", None) or f.get("friend")
        # ---- L1 destructor destroys
        if is_dtor:
            any_d = any(any(t.k == "D" and t.root == "this" for t in p) for p in paths)
            ok = any_d
            chk.obligation("L1", construct, ok)
            if not ok:
                chk.violation("L1", construct, "no-destroy", "%s: the destructor never destroys the stored object(s); paths: %s" % (
                    astx.loc(f), " || ".join(sorted(set(L.show_path(p) for p in paths)))[:300]), {"where": astx.loc(f)})
            continue
        # ---- per-path typestate
        bad2 = bad3 = badg = bad2d = None
        for p in paths:
            live = not is_ctor
            unsure = False
            for i, t in enumerate(p):
                if t.k == "?":
                    unsure = True
                if kind == "slot":
                    if t.k == "D" and t.root == "this":
                        # L2d: the single slot is destroyed a second time with nothing constructed in between
                        if not live and not unsure and not is_ctor and bad2d is None and any(
                                s.k == "D" and s.root == "this" for s in p[:i]):
                            bad2d = (p, t)
                        live = False
                        unsure = False
                    elif t.k == "C" and t.root == "this":
                        if live and not unsure and bad2 is None:
                            bad2 = (p, t)
                        live = True
                if t.k == "C" and t.root == "this":
                    # L3: the liveness state is updated on the same path
                    if not any(s.k == "S" and s.root == "this" and s.field in state for s in p) and not has_q(p):
                        if bad3 is None:
                            bad3 = (p, t, "construct without update of %s" % sorted(state))
                if t.k == "D" and t.root == "this":
                    rest = p[i + 1:]
                    if not any((s.k == "S" and s.root == "this" and s.field in state) or (s.k == "C" and s.root == "this") for s in rest) \
                            and not any(s.k == "S" and s.root == "this" and s.field in state for s in p[:i]) and not has_q(p):
                        if bad3 is None:
                            bad3 = (p, t, "destroy without update of %s" % sorted(state))
                if t.k == "D" and t.root in others:
                    if not any((s.k == "S" and s.root == t.root) or (s.k == "C" and s.root == t.root) for s in p) and not has_q(p):
                        if badg is None:
                            badg = (p, t)
        if not public:
            chk.extra.setdefault("helpers_summarised_by_inlining", []).append(construct)
            continue
        # L2
        if kind == "slot":
            chk.obligation("L2", construct, bad2 is None)
            if bad2:
                chk.violation("L2", construct, "construct-over-live",
                              "%s: constructs into storage that still holds a live object (no destroy on this path): %s" % (
                                  astx.loc(f, bad2[1].info), L.show_path(bad2[0])), {"where": astx.loc(f, bad2[1].info)})
            chk.obligation("L2d", construct, bad2d is None)
            if bad2d:
                chk.violation("L2d", construct, "destroyed-twice",
                              "%s: destroys the stored object again although nothing was constructed since the previous destroy "
                              "on this path: %s" % (astx.loc(f, bad2d[1].info), L.show_path(bad2d[0])), {"where": astx.loc(f, bad2d[1].info)})
        chk.obligation("L3", construct, bad3 is None)
        if bad3:
            chk.violation("L3", construct, "state-not-updated",
                          "%s: %s on the path %s" % (astx.loc(f, bad3[1].info), bad3[2], L.show_path(bad3[0])),
                          {"where": astx.loc(f, bad3[1].info)})
        chk.obligation("L3-moved-from", construct, badg is None)
        if badg:
            chk.violation("L3-moved-from", construct, "source-left-dangling",
                          "%s: destroys the object held by parameter `%s` without resetting its state: %s" % (
                              astx.loc(f, badg[1].info), badg[1].root, L.show_path(badg[0])), {"where": astx.loc(f, badg[1].info)})
        # ---- L5 self-alias safety (copy assignment, member swap)
        # (move assignment: only for single-slot owners -- a vector that clears itself first moves from an empty range)
        if f.get("special") == "copy_assign" or (f.get("special") == "move_assign" and kind == "slot") or \
                (f["n"] == "swap" and len(f["params"]) == 1):
            pn = f["params"][0]["n"]
            by_value = "&" not in f["params"][0]["ty"]
            bad5 = None
            if not by_value:
                apaths, _ = L.token_paths(prog, sigs, state, alias_param=pn)
                for p in apaths:
                    if has_q(p):
                        continue
                    dead = False
                    for t in p:
                        root = "this" if t.root == pn else t.root
                        src = "this" if t.src == pn else t.src
                        if t.k == "C" and root == "this" and src == "this" and dead and t.src == pn:
                            bad5 = (p, t)
                        if t.k == "C" and root == "this":
                            dead = False if kind == "slot" else dead
                        if t.k == "D" and root == "this":
                            dead = True
                    if bad5:
                        break
            if bad5 is None and not by_value and apaths and all(has_q(p) for p in apaths):
                # every path runs through an unresolved dispatch (visit), which hides which alternative pair is active. If all of
                # them nevertheless destroy *this before they construct from the source, self-assignment cannot avoid it
                def destroy_then_copy(p):
                    dead = False
                    for t in p:
                        root = "this" if t.root == pn else t.root
                        if t.k == "D" and root == "this":
                            dead = True
                        if t.k == "C" and root == "this" and t.src == pn and dead:
                            return t
                    return None
                hits = [destroy_then_copy(p) for p in apaths]
                if all(h is not None for h in hits):
                    bad5 = (apaths[0], hits[0])
            chk.obligation("L5", construct, bad5 is None)
            if bad5:
                chk.violation("L5", construct, "self-alias",
                              "%s: with `%s` aliasing *this the object is destroyed before it is read as the source: %s" % (
                                  astx.loc(f, bad5[1].info), pn, L.show_path(bad5[0])), {"where": astx.loc(f, bad5[1].info)})
        # ---- moved-from source keeps its elements alive but loses its state (leak)
        if f.get("special") in ("move_ctor", "move_assign") and f["params"]:
            pn = f["params"][0]["n"]
            badm = None
            for p in paths:
                if has_q(p):
                    continue
                if any(t.k == "S" and t.root == pn and t.field in state for t in p) and \
                        any(t.k == "C" and t.root == "this" and t.src == pn for t in p) and \
                        not any(t.k == "D" and t.root == pn for t in p):
                    badm = p
                    break
            chk.obligation("L3-moved-from", construct + " (source state reset)", badm is None)
            if badm:
                chk.violation("L3-moved-from", construct, "source-elements-leaked",
                              "%s: the source's liveness state is reset although its (moved-from) elements are never "
                              "destroyed: %s" % (astx.loc(f), L.show_path(badm)), {"where": astx.loc(f)})
        # ---- L6 shapes of copy / move construction
        if kind == "slot" and f.get("special") in ("copy_ctor", "move_ctor") and f["params"]:
            pn = f["params"][0]["n"]
            for p in paths:
                if has_q(p):
                    continue
                cs = [t for t in p if t.k == "C" and t.root == "this"]
                ds = [t for t in p if t.k == "D" and t.root == pn]
                if not cs:
                    continue
                want_d = f["special"] == "move_ctor"
                ok = (len(ds) == 1) == want_d if sigs_used(p) else True
                chk.obligation("L6", construct, ok)
                if not ok:
                    chk.violation("L6", construct, "thunk-shape",
                                  "%s: %s construction must %sdestroy the source object; path %s" % (
                                      astx.loc(f), "move" if want_d else "copy", "" if want_d else "not ", L.show_path(p)),
                                  {"where": astx.loc(f)})
                break
        chk.sample({"function": construct, "paths": sorted(set(L.show_path(p) for p in paths))[:4]})


def sigs_used(path):
    return any(t.info is not None and t.info.get("slot") for t in path)


def rule_of_five(chk, db, rec_q):
    """L4: user-provided destructor or copy constructor => copy and move assignment must be user-declared."""
    for rec in db.rec_by_q.get(rec_q, []):
        ms = rec["methods"]
        user_dtor = [m for m in ms if m["kind"] == "dtor" and m.get("hasbody") and not m.get("defaulted")]
        user_copy = [m for m in ms if m.get("special") == "copy_ctor" and m.get("hasbody") and not m.get("defaulted")]
        if not user_dtor and not user_copy:
            continue
        user_move = [m for m in ms if m.get("special") in ("move_ctor", "move_assign")]
        for sp, what in (("copy_assign", "copy assignment"), ("move_assign", "move assignment")):
            if user_move:
                # a user-declared move operation makes the implicit copy assignment deleted and suppresses the implicit
                # move assignment: nothing member-wise is generated
                chk.instance("L4")
                chk.obligation("L4", "%s %s" % (rec_q, what), True)
                continue
            decl = [m for m in ms if m.get("special") == sp]
            # a by-value operator=(X) covers both
            byval = [m for m in ms if m["n"] == "operator=" and m["params"] and "&" not in m["params"][0]["ty"]
                     and rec["n"] in m["params"][0]["ty"]]
            ok = bool(decl) or bool(byval)
            construct = "%s %s" % (rec_q, what)
            chk.instance("L4")
            chk.obligation("L4", construct, ok)
            if not ok:
                chk.violation("L4", construct, "implicit-special-member",
                              "include/etl/%s:%s: %s has a user-provided %s but an implicitly generated %s (member-wise copy of "
                              "live elements / state)" % (rec["file"], rec["line"], rec_q,
                                                          "destructor" if user_dtor else "copy constructor", what),
                              {"record": rec_q})


META_EXTRA = 'SLOTS-D / SLOTS-C (destroyed range = removed tail; construction at the first free slot); SRC (no source-destroying slot on a const source); VT (vtable value vs storage content through constructors, assignment, swap, destructor).'
META = (META[0] + " " + META_EXTRA, META[1])
META = (META[0] + ' L5 also covers move assignment of single-slot owners.', META[1])
META = (META[0] + ' TRIVREQ (folds over triviality traits in the sum types are conjunctions).', META[1])


def trivreq_rule(chk, files=("_variant/variant.hpp", "_optional/optional.hpp", "_expected/expected.hpp")):
    """TRIVREQ: a special member of a sum type may be trivial (defaulted) only if it is trivial for *every* alternative, and the
    hand-written one takes over when *not all* are: every fold over a triviality trait in these headers is a conjunction
    (`(... and is_trivially_destructible_v<Ts>)`). clang 14 does not implement prospective destructors (P0848), so the
    constrained defaulted destructor is invisible to the extractor: this rule reads the comment-free source text."""
    import os
    n = 0
    pat = re.compile(r"\(\s*\.\.\.\s*(and|or|&&|\|\|)\s*([\w:]*trivially[\w:]*\s*<[^()]*?>)\s*\)|"
                     r"\(\s*([\w:]*trivially[\w:]*\s*<[^()]*?>)\s*(and|or|&&|\|\|)\s*\.\.\.\s*\)")
    for rel in files:
        path = os.path.join(D.ROOT, rel)
        if not path or not os.path.exists(path):
            continue
        text = open(path).read()
        text = re.sub(r"/\*.*?\*/", lambda m: "\n" * m.group(0).count("\n"), text, flags=re.S)
        text = re.sub(r"//[^\n]*", "", text)
        for m in pat.finditer(text):
            op = m.group(1) or m.group(4)
            trait = (m.group(2) or m.group(3)).strip()
            line = text.count("\n", 0, m.start()) + 1
            n += 1
            label = "%s:%d fold over %s" % (rel, line, trait)
            chk.instance("TRIVREQ")
            ok = op in ("and", "&&")
            chk.obligation("TRIVREQ", label, ok)
            if not ok:
                chk.violation("TRIVREQ", label, "disjunctive-triviality", "include/etl/%s:%d: `%s` folds the triviality trait with `%s`: the "
                              "constraint holds as soon as one alternative is trivial, so the trivial special member is chosen although "
                              "another alternative needs the hand-written one" % (rel, line, m.group(0).strip(), op), {"where": "include/etl/%s:%d" % (rel, line)})
    if n < 3:
        chk.analysis_broken("TRIVREQ: only %d folds over triviality traits found in the sum types (floor 3)" % n)
    return n

META = (META[0] + ' ENGAGE (optional from optional: neither side is dereferenced where it may be disengaged; shared with C07).', META[1])

META = (META[0] + ' L2d (a single-slot owner does not destroy its object twice on one path without constructing in between).', META[1])

META = (META[0] + ' FOREIGNSIZE (a raw size store through another object or an alias is preceded by a destroying call on that object).', META[1])


META = (META[0] + ' TRAITREF (no property trait such as is_trivially_destructible is asked of decltype(*it), a reference type for which it is vacuously true; controls in fixtures/extra10_pos.hpp).', META[1])


META = (META[0] + ' SLOTS-G (slots gained by a raw size store are constructed on that path, not merely assigned to).', META[1])


def run(chk, tier):
    db = D.load("checks")
    sigs = L.slot_signatures(db)
    chk.extra["slot_signatures"] = dict(("%s::%s" % k, [[list(t) for t in s] for s in v]) for k, v in sigs.items()
                                        if any(v))
    nfun = 0
    for owner, kind in OWNERS.items():
        recs = [owner]
        if kind == "vector":
            recs = db.lineage(owner)
        if not db.rec_by_q.get(owner):
            chk.analysis_broken("owner type %s no longer exists" % owner)
            continue
        state = L.state_fields(db, owner)
        if not state:
            chk.analysis_broken("no liveness-state field derivable for %s (size()/index()/operator bool)" % owner)
            continue
        chk.extra.setdefault("liveness_state", {})[owner] = sorted(state)
        for rq in recs:
            if not rq.startswith("etl::"):
                continue
            if rq != owner and not any(x in rq for x in ("storage",)):
                continue
            for f in L.member_functions(db, rq):
                if f.get("access") == "private" and f["n"] not in ("assign", "replace", "destroy"):
                    pass
                analyse_function(chk, db, sigs, owner, kind, rq, f, state)
                nfun += 1
            rule_of_five(chk, db, rq)
    trivreq_rule(chk)
    from ..rules import extra8 as _X8
    _X8.foreign_size_area(chk, D.load('plain'), ['_vector/', '_inplace_vector/'])      # FOREIGNSIZE (zero expected on the library)
    from ..rules import extra10 as _X10
    if _X10.trait_of_reference_area(chk, D.load('checks'), ['_memory/', '_vector/', '_inplace_vector/', '_optional/', '_variant/', '_expected/', '_array/']) < 80:      # TRAITREF (zero expected)
        chk.analysis_broken('TRAITREF: fewer than 80 function bodies scanned (floor 80)')
    _X10.positive_controls(chk, D, ('TRAITREF',))
    # ENGAGE (shared with C07): an optional built or assigned from another optional dereferences either side only where it
    # was tested to hold a value -- assigning through `**this` on disengaged storage starts no lifetime
    from . import c07 as _c07
    _c07.engage_rule(chk, D.load("checks"))
    nvt = L.vt_rule(chk, db, sigs, "VT")
    if nvt < 8:
        chk.analysis_broken("VT: only %d special members of table-dispatching owners analysed (floor 8)" % nvt)
    nsrc = L.const_source_rule(chk, db, sigs, "SRC")
    if nsrc < 2:
        chk.analysis_broken("SRC: only %d copying members of slot-based owners found (floor 2)" % nsrc)
    # SLOTS-D / SLOTS-C: the destroyed range is the removed tail; construction happens at the first free slot
    slots.check(chk, D.load("plain"), ["static_vector", "inplace_vector"],
                lambda r: ("trivial_storage" not in r) or ("non_trivial" in r), only=("D", "C", "G"))
    if chk.rule_instances.get("SLOTS-G", 0) < 1:
        chk.analysis_broken("SLOTS-G: no growing size store found in the vectors (floor 1)")
    if chk.rule_instances.get("SLOTS-D", 0) < 2 or chk.rule_instances.get("SLOTS-C", 0) < 1:
        chk.analysis_broken("SLOTS: only %d shrinking / %d constructing size stores found in the vectors (floors 2 / 1)" % (
            chk.rule_instances.get("SLOTS-D", 0), chk.rule_instances.get("SLOTS-C", 0)))
    # delegating owners: no primitive lifecycle effect of their own, rule of five
    for rq in DELEGATING:
        if not db.rec_by_q.get(rq):
            chk.analysis_broken("owner type %s no longer exists" % rq)
            continue
        for f in L.member_functions(db, rq):
            if f.get("defaulted") or f.get("deleted"):
                continue
            b = P.Builder(db, max_depth=0, versioning=False)
            prog, ctx = b.build(f)
            own = [nd for nd in P.flatten(prog) if nd[0] == "effect" and nd[2].get("token") in ("construct", "destroy")
                   and nd[2].get("depth", 0) == 0]
            chk.instance("LIFE-delegate")
            chk.obligation("LIFE-delegate", astx.sig(f), not own)
            nfun += 1
            if own:
                chk.violation("LIFE-delegate", astx.sig(f), "primitive-lifecycle-effect",
                              "%s: %s performs %s itself instead of delegating to its member container" % (
                                  astx.loc(f, own[0][2]), rq, own[0][2].get("what")), {"where": astx.loc(f, own[0][2])})
        rule_of_five(chk, db, rq)
    chk.extra["functions_analysed"] = nfun
    if nfun < FLOOR_FUNCS:
        chk.analysis_broken("only %d member functions of owning types analysed (floor %d)" % (nfun, FLOOR_FUNCS))
    chk.assumptions += [
        "number of elements destroyed/constructed inside loops is not counted: ranges are compared as tokens only",
        "paths through calls that cannot be resolved (callable parameters, visit on foreign objects) are marked '?' and "
        "never produce a violation",
        "pair/tuple hold their elements as ordinary members (language-managed lifetime): nothing to check",
    ]
