"""C06 - algorithms return what the standard specifies (clauses: scan discipline, functor discipline, tie rules)."""
import os
from .. import astx
from .. import db as D
from ..rules import iters as IT
from ..rules import rel

META = ("IT1 (every linear-scan cursor that a loop condition compares with its range end is dereferenced only after that "
        "comparison has succeeded since its last increment, on every structural path), IT2 (overloads taking a comparator/"
        "predicate/operation combine elements only through it; the functor-less overload delegates with the std-mandated default "
        "functor), TIE (min/max/clamp/minmax return the std-specified operand for every ordering of their arguments), REL "
        "(reverse_iterator relational operators are the inverted base comparisons)",
        ["clang 14 parser/sema (tetl-ast)"])


def tie_rule(chk, db):
    """min(a,b)/max(a,b)/clamp(v,lo,hi) with comparator: evaluate the returned operand over ord in {<,=,>}"""
    n = 0
    specs = {"min": lambda o: "b" if o == ">" else "a", "max": lambda o: "b" if o == "<" else "a"}
    for name in ("min", "max"):
        for f in db.by_q.get("etl::" + name, []):
            ps = f["params"]
            if len(ps) != 3 or "initializer_list" in ps[0]["ty"]:
                continue
            a, b, comp = ps[0]["n"], ps[1]["n"], ps[2]["n"]
            e = None
            body = f["body"]["s"] if f["body"].get("k") == "seq" else []
            if len(body) == 1 and body[0].get("k") == "return":
                e = astx.strip_casts(body[0]["e"])
            n += 1
            chk.instance("TIE")
            construct = astx.sig(f)
            if e is None or e.get("k") != "cond":
                chk.unknown_instance("TIE", construct, "not a single conditional return")
                continue

            def ev_cond(c, o):
                c = astx.strip_casts(c)
                if c.get("k") == "call" and len(c["a"]) == 2:
                    x, y = astx.strip_casts(c["a"][0]), astx.strip_casts(c["a"][1])
                    if x.get("k") == "ref" and y.get("k") == "ref":
                        if (x["n"], y["n"]) == (a, b):
                            return o == "<"
                        if (x["n"], y["n"]) == (b, a):
                            return o == ">"
                return None
            bad = None
            for o in "<=>":
                c = ev_cond(e["c"], o)
                if c is None:
                    bad = "unmodelled"
                    break
                r = astx.strip_casts(e["t"] if c else e["f"])
                got = "a" if r.get("n") == a else ("b" if r.get("n") == b else "?")
                if got != specs[name](o):
                    bad = (o, got, specs[name](o))
                    break
            if bad == "unmodelled":
                chk.unknown_instance("TIE", construct, "condition not modelled")
                continue
            chk.obligation("TIE", construct, bad is None, evaluations=3)
            if bad:
                chk.violation("TIE", construct, "wrong-operand", "%s: for ord(a,b) = '%s' %s returns %s, the standard requires %s" % (
                    astx.loc(f), bad[0], name, bad[1], bad[2]), {"where": astx.loc(f)})
    # minmax(a, b, comp): (b, a) when comp(b, a), else (a, b) -- for equivalent arguments the pair is (a, b), not (a, a)
    for f in db.by_q.get("etl::minmax", []):
        ps = f["params"]
        if len(ps) != 3 or "initializer_list" in ps[0]["ty"] or f.get("body") is None:
            continue
        a, b, comp = ps[0]["n"], ps[1]["n"], ps[2]["n"]
        body = f["body"]["s"] if f["body"].get("k") == "seq" else []
        rets = [st for st in body if st.get("k") == "return"]
        n += 1
        chk.instance("TIE")
        construct = astx.sig(f)
        if len(rets) != 1 or rets[0].get("e") is None:
            chk.unknown_instance("TIE", construct, "not a single return")
            continue

        class NMx(Exception):
            pass

        def elem(e, o):
            """'a' / 'b' for the element an expression denotes when ord(a, b) = o"""
            e = astx.strip_casts(e)
            if e is None:
                raise NMx()
            if e.get("k") == "ref" and e.get("n") in (a, b):
                return "a" if e["n"] == a else "b"
            if e.get("k") == "call" and astx.callee(e)[0] in ("min", "max") and len(e["a"]) in (2, 3):
                x, y = elem(e["a"][0], o), elem(e["a"][1], o)
                oo = o if (x, y) == ("a", "b") else ({"<": ">", ">": "<", "=": "="}[o] if (x, y) == ("b", "a") else "=")
                if astx.callee(e)[0] == "min":
                    return y if oo == ">" else x          # [alg.min.max]: the first argument unless the second is smaller
                return y if oo == "<" else x              # max: the first argument unless it is smaller than the second
            if e.get("k") == "cond":
                return elem(e["t"] if truth(e["c"], o) else e["f"], o)
            raise NMx()

        def truth(c, o):
            c = astx.strip_casts(c)
            if c is not None and c.get("k") == "un" and c["op"] == "!":
                return not truth(c["e"], o)
            if c is not None and c.get("k") == "call" and len(c["a"]) == 2 and astx.strip_casts(c["f"]) is not None and \
                    astx.strip_casts(c["f"]).get("n") == comp:
                x, y = elem(c["a"][0], o), elem(c["a"][1], o)
                if (x, y) == ("a", "b"):
                    return o == "<"
                if (x, y) == ("b", "a"):
                    return o == ">"
                return False
            raise NMx()

        def pair_of(e, o):
            e = astx.strip_casts(e)
            if e is None:
                raise NMx()
            if e.get("k") == "cond":
                return pair_of(e["t"] if truth(e["c"], o) else e["f"], o)
            args = e.get("a") if e.get("k") in ("construct", "initlist", "call") else None
            if args is not None and len(args) == 1 and args[0] is not None and args[0].get("k") == "initlist":
                args = args[0]["a"]
            if args is not None and len(args) == 2:
                return (elem(args[0], o), elem(args[1], o))
            raise NMx()
        bad = None
        try:
            for o in "<=>":
                got = pair_of(rets[0]["e"], o)
                want = ("b", "a") if o == ">" else ("a", "b")
                if got != want and bad is None:
                    bad = (o, got, want)
        except NMx:
            chk.unknown_instance("TIE", construct, "returned pair not modelled")
            continue
        chk.obligation("TIE", construct, bad is None, evaluations=3)
        if bad:
            chk.violation("TIE", construct, "wrong-operand", "%s: for ord(a,b) = '%s' minmax returns (%s, %s), the standard requires (%s, %s)" % (
                astx.loc(f), bad[0], bad[1][0], bad[1][1], bad[2][0], bad[2][1]), {"where": astx.loc(f)})
    return n


FIXTURE = os.path.join(D.VERIF, "fixtures", "iter_pos.hpp")


META_EXTRA = 'IT3 (returned output cursor is advanced after its last write); IT4 (downward scans visit the first element); IT5 (`if constexpr` alternatives consult the same range ends); TIE-ELEM (min/max/minmax_element replace their holder in exactly the specified orderings); MERGE3 (one step of the merge-like algorithms per ordering of the heads); BISECT (one symbolic step of every bisection loop leaves [first+step+1, first+count) or [first, first+step)); IT4i (index-form downward scans reach index 0); OUTSTEP (an output cursor is stepped only after a write); RESUME (pattern searches move their candidate by one); RUN (typestate none/current/stale of a remembered run start against resets of the run counter, fixed point over the loop); STABLE (an insertion step shifts only past strictly greater elements, evaluated per ordering); IT1n (counted ranges are touched only where the count is positive); END2 (what equal / lexicographical_compare answer per end state of their lockstep scan); SHIFTRET (positions shift_left / shift_right return in the do-nothing cases, all (n, length) up to 4); PARAM.'
META = (META[0] + " " + META_EXTRA, META[1])

META = (META[0] + ' FUNCPASS (a functor overload hands its functor to every ordering / matching algorithm it calls); TIEMOVE (stable algorithms reorder elements only on paths where the functor is true, never where it is merely not true the other way round); RSTEP (downward scans test their lower bound before each step).', META[1])

META = (META[0] + ' DISTGUARD; IT1n also covers range ends formed from the count.', META[1])

META = (META[0] + ' SELFMOVE (no algorithm move-assigns an element onto itself).', META[1])

META = (META[0] + ' STALEREP (an element cached as the representative of the current group is refreshed in the loop that starts new groups; controls in fixtures/extra8_pos.hpp); TIE covers minmax.', META[1])

META = (META[0] + ' PREVBOUND (a loop that stops at `!= prev(last)` knows the range is not empty; controls in fixtures/extra8_pos.hpp).', META[1])

META = (META[0] + ' PREFIXWIN (a search of the already visited prefix inside a loop starts where the loop started).', META[1])


META = (META[0] + ' MEMSHORT (a bytewise memcmp / memcpy / memmove over elements is guarded by the trait that makes bytes and values agree; controls in fixtures/extra10_pos.hpp).', META[1])


META = (META[0] + ' TYPEDDEF (an overload without functor delegates with a transparent functor or one fixed to the element type, never one fixed to another type parameter such as the accumulator).', META[1])


META = (META[0] + ' EMPTYQ (all_of / none_of answer true and any_of false on an early return for the empty range).', META[1])


def run(chk, tier):
    db = D.load("checks")
    from ..rules import params as _PR
    _PR.check(chk, db, ['_algorithm/', '_numeric/'], floor=150)
    from ..rules import iters as _ITX
    _ITX.reverse_index_area(chk, db, ['_algorithm/', '_numeric/'])      # IT4i: downward index scans reach index 0
    _ITX.resume_area(chk, db, ['_algorithm/'])      # RESUME: pattern searches try every candidate position
    if _ITX.functor_passed_area(chk, db, ['_algorithm/', '_numeric/']) < 8:      # FUNCPASS
        chk.analysis_broken("FUNCPASS: fewer than 8 functor overloads that call another algorithm (floor 8)")
    if _ITX.tie_move_area(chk, db, ['_algorithm/']) < 2:      # TIEMOVE
        chk.analysis_broken("TIEMOVE: fewer than 2 stable algorithms with a functor-guarded reordering (floor 2)")
    from ..rules import extra8 as _X8
    _X8.dist_guard_area(chk, db, ['_algorithm/', '_numeric/'])      # DISTGUARD
    _X8.positive_controls(chk, D, ('DISTGUARD', 'STALEREP', 'PREVBOUND'))
    from ..rules import extra10 as _X10
    if _X10.mem_shortcut_area(chk, db, ['_algorithm/', '_numeric/']) < 100:      # MEMSHORT (zero calls expected on the library)
        chk.analysis_broken('MEMSHORT: fewer than 100 function bodies scanned (floor 100)')
    _X10.positive_controls(chk, D, ('MEMSHORT',))
    from ..rules import extra12 as _X12
    if _X12.empty_quantifier_area(chk, db, ['_algorithm/']) < 3:      # EMPTYQ
        chk.analysis_broken('EMPTYQ: all_of / any_of / none_of not found (floor 3)')
    if _X10.typed_default_area(chk, db, ['_algorithm/', '_numeric/']) < 20:      # TYPEDDEF
        chk.analysis_broken('TYPEDDEF: fewer than 20 delegations with a functor object built on the spot (floor 20)')
    from ..rules import extra9 as _X9
    if _X9.prefix_window_area(chk, db, ['_algorithm/', '_numeric/']) < 1:      # PREFIXWIN
        chk.unknown_instance('PREFIXWIN', 'etl::is_permutation', 'no search of the visited prefix inside a loop found')
    _X8.prev_bound_area(chk, db, ['_algorithm/', '_numeric/'])      # PREVBOUND
    _X8.stale_rep_area(chk, db, ['_algorithm/', '_numeric/'])      # STALEREP (zero expected on the library)
    if _X8.self_move_area(chk, db, ['_algorithm/']) < 3:      # SELFMOVE
        chk.analysis_broken('SELFMOVE: fewer than 3 algorithms that move-assign through two cursors (floor 3)')
    if _ITX.rstep_area(chk, db, ['_algorithm/', '_numeric/', '_memory/']) < 5:      # RSTEP
        chk.analysis_broken("RSTEP: fewer than 5 downward scans (floor 5)")
    nsr = 0
    for nm in ("etl::shift_left", "etl::shift_right", "etl::rotate"):
        for f0 in db.by_q.get(nm, []):
            for node, ok, msg in _ITX.check_shift_returns(f0):
                nsr += 1
                label = "%s :: early `return %s` at line %s" % (astx.sig(f0), astx.show(node, 30), node.get("line") or f0["line"])
                chk.instance("SHIFTRET")
                chk.obligation("SHIFTRET", label, ok, evaluations=25)
                if ok is False:
                    chk.violation("SHIFTRET", label, "degenerate-return", "%s: %s" % (astx.loc(f0, node), msg), {"where": astx.loc(f0)})
                elif ok is None:
                    chk.unknown_instance("SHIFTRET", label, msg)
    if not db.by_q.get("etl::shift_left") or not db.by_q.get("etl::shift_right"):
        chk.analysis_broken("SHIFTRET: shift_left / shift_right no longer exist")
    for f0 in [g for g in db.funcs if g["file"].startswith("_algorithm/") and g.get("body") is not None]:
        for s0, cnt, hold, ok, msg in _ITX.check_run_state(f0):
            label = "%s :: run counter `%s` / start `%s` (loop at line %s)" % (astx.sig(f0), cnt, hold, s0.get("line"))
            chk.instance("RUN")
            chk.obligation("RUN", label, ok)
            if not ok:
                chk.violation("RUN", label, "stale-run-start", "%s: %s" % (astx.loc(f0, s0), msg), {"where": astx.loc(f0)})
    for f0 in [g for g in db.funcs if g["file"].startswith("_algorithm/") and g.get("body") is not None]:
        for node, ok, msg in _ITX.check_end2(f0):
            label = "%s :: `return %s`" % (astx.sig(f0), astx.show(node.get("e"), 50))
            chk.instance("END2")
            chk.obligation("END2", label, ok, evaluations=3)
            if ok is False:
                chk.violation("END2", label, "end-state-answer", "%s: %s" % (astx.loc(f0, node), msg), {"where": astx.loc(f0)})
            elif ok is None:
                chk.unknown_instance("END2", label, msg)
    _ITX.counted_area(chk, db, ['_algorithm/', '_numeric/'], floor=2)      # IT1n
    _ITX.equal_range_area(chk, db, ['_algorithm/'])      # EQRANGE: equal_range = (lower_bound, upper_bound)
    for f0 in [g for g in db.funcs if g["file"].startswith("_algorithm/") and g.get("body") is not None and "sort" in g["n"]]:
        for s0, ok, msg in _ITX.check_insertion_step(f0):
            label = "%s :: insertion loop at line %s" % (astx.sig(f0), s0.get("line"))
            chk.instance("STABLE")
            chk.obligation("STABLE", label, ok, evaluations=3)
            if ok is False:
                chk.violation("STABLE", label, "insertion-step", "%s: %s" % (astx.loc(f0, s0), msg), {"where": astx.loc(f0)})
            elif ok is None:
                chk.unknown_instance("STABLE", label, msg)
    _ITX.bisect_area(chk, db, ['_algorithm/'])      # BISECT: one bisection step keeps exactly the half that can hold the answer
    funcs = [f for f in db.funcs if (f["file"].startswith("_algorithm/") or f["file"].startswith("_numeric/")) and f.get("kind") == "function"]
    n_scan = n_cursors = 0
    not_modelled = []
    by_name = {}
    for f in funcs:
        by_name.setdefault(f["n"], []).append(f)
    for f in funcs:
        r = IT.check_scan(chk, f)
        if r is None:
            continue
        construct = astx.sig(f)
        if r[0] == "not-modelled":
            not_modelled.append({"algorithm": construct, "cursors_with_iterator_arithmetic": r[1]})
            continue
        n_scan += 1
        chk.instance("IT1")
        if r[0] == "ok":
            chk.obligation("IT1", construct, True, evaluations=r[2])
            if r[1]:
                not_modelled.append({"algorithm": construct, "cursors_with_iterator_arithmetic": r[1]})
            chk.sample({"rule": "IT1", "algorithm": construct, "paths": r[2]})
        else:
            var, node, what = r[1]
            chk.obligation("IT1", construct, False)
            chk.violation("IT1", construct, "unchecked-cursor", "%s: `%s` is %s (`%s`) on a path where it has not been compared with its "
                          "range end since its last increment" % (astx.loc(f, node), var, what, astx.show(node, 50)), {"where": astx.loc(f)})
    n_f = 0
    for f in funcs:
        probs = IT.check_functor(chk, f, by_name.get(f["n"], []))
        if probs is None:
            continue
        n_f += 1
        chk.instance("IT2")
        construct = astx.sig(f)
        real = [p for p in probs if p[0] != "default-unrecognised"]
        if probs and not real:
            chk.unknown_instance("IT2", construct, "default functor not recognised in the delegation")
            continue
        chk.obligation("IT2", construct, not real)
        for kind, msg, node in real[:2]:
            chk.violation("IT2", construct, kind, "%s: %s" % (astx.loc(f, node), msg), {"where": astx.loc(f)})
    n_out = 0
    mem = [f for f in db.funcs if f["file"].startswith("_memory/") and f.get("kind") == "function" and f.get("body") is not None]
    for f in funcs + mem:
        if f.get("body") is None:
            continue
        r = IT.check_output(chk, f)
        if r is None:
            continue
        n_out += 1
        construct = astx.sig(f)
        chk.instance("IT3")
        chk.obligation("IT3", construct, r[0] == "ok", evaluations=r[1] if r[0] == "ok" else 1)
        if r[0] == "bad":
            cur, node, path = r[1]
            chk.violation("IT3", construct, "returns-written-position", "%s: `%s` is returned while it still designates the last element "
                          "written (it is not advanced after its last write on this path); the algorithm returns one past the last element"
                          % (astx.loc(f, node if isinstance(node, dict) else None), cur), {"where": astx.loc(f)})
        # OUTSTEP: the output cursor is stepped only after a write (two steps without a write skip an output slot)
        chk.instance("OUTSTEP")
        gaps = f.get("_it3_gaps") or []
        chk.obligation("OUTSTEP", construct, not gaps)
        if gaps:
            cur, node, path = gaps[0]
            chk.violation("OUTSTEP", construct, "output-slot-skipped", "%s: `%s` is advanced although nothing was written through it since its "
                          "previous advance (a path on which the element is not copied still steps the output): the output range gets "
                          "holes and the returned end is too far" % (astx.loc(f, node), cur), {"where": astx.loc(f)})
    if n_out < 15:
        chk.analysis_broken("IT3: only %d algorithms return their output cursor (floor 15)" % n_out)
    n_rev = 0
    for f in funcs:
        for cur, beg, loop, handled in IT.check_reverse(chk, f):
            n_rev += 1
            construct = "%s :: downward scan of `%s` (line %s)" % (astx.sig(f), cur, loop.get("line"))
            chk.instance("IT4")
            chk.obligation("IT4", construct, handled)
            if not handled:
                chk.violation("IT4", construct, "first-element-skipped", "%s: the loop uses `*%s` and then steps down, and stops when `%s == %s`: "
                              "the element at `%s` is never visited and is not handled after the loop" % (
                                  astx.loc(f, loop), cur, cur, beg, beg), {"where": astx.loc(f, loop)})
    chk.extra["downward_scans"] = n_rev
    n_ext = 0
    for f in funcs:
        r = IT.check_extremes(f)
        if r is None:
            continue
        probs, inst = r
        if not inst:
            continue
        n_ext += 1
        construct = astx.sig(f)
        chk.instance("TIE-ELEM")
        chk.obligation("TIE-ELEM", construct, not probs, evaluations=3 * inst)
        for h, node, o, got, need in probs[:1]:
            chk.violation("TIE-ELEM", construct, "wrong-equivalent-element", "%s: `%s` %s replaced when the candidate is %s the element it "
                          "designates; %s returns %s" % (astx.loc(f, node), h, "is" if got else "is not", {"<": "less than", "=": "equivalent to", ">": "greater than"}[o],
                                                          f["n"], {"min_element": "the first smallest element", "max_element": "the first largest element",
                                                                   "minmax_element": "the first smallest and the last largest element"}[f["n"]]),
                          {"where": astx.loc(f)})
    if n_ext < 3:
        chk.analysis_broken("TIE-ELEM: only %d of min_element/max_element/minmax_element analysed (floor 3)" % n_ext)
    n_mrg = 0
    for name, table in IT.MERGE_SPEC.items():
        for f in [g for g in funcs if g["n"] == name and IT.functor_params(g) and g.get("body") is not None]:
            n_mrg += 1
            construct = astx.sig(f)
            chk.instance("MERGE3")
            bad = None
            unknown = None
            for o in "<=>":
                try:
                    got = IT.merge_step(f, o)
                except IT._StepUnmodelled as ex:
                    unknown = str(ex)
                    break
                want = table[o]
                if (got[0], got[1], got[2]) != (want[0], want[1], want[2]) and bad is None:
                    bad = (o, got, want)
            chk.obligation("MERGE3", construct, False if bad else (None if unknown else True), evaluations=3)
            if bad:
                o, got, want = bad
                desc = lambda t: "advances the first range by %d and the second by %d and writes %s" % (t[0], t[1], ("from range " + ", ".join(t[2])) if t[2] else "nothing")
                chk.violation("MERGE3", construct, "merge-step", "%s: when *first1 %s *first2 one step %s; %s %s" % (
                    astx.loc(f), {"<": "is less than", "=": "is equivalent to", ">": "is greater than"}[o], desc(got), name, desc(want)), {"where": astx.loc(f)})
            elif unknown:
                chk.unknown_instance("MERGE3", construct, "step not modelled: " + unknown)
    if n_mrg < 5:
        chk.analysis_broken("MERGE3: only %d of the merge-like algorithms found (floor 5)" % n_mrg)
    n_cfg = 0
    for f in funcs:
        r = IT.check_static_agreement(f)
        if r is None:
            continue
        n_cfg += 1
        construct = astx.sig(f)
        chk.instance("IT5")
        chk.obligation("IT5", construct, not r)
        for endp, why in r[:1]:
            chk.violation("IT5", construct, "range-end-ignored", "%s: when %s the parameter `%s` is never read, so the result cannot depend on "
                          "where that range ends (the other `if constexpr` alternative reads it)" % (astx.loc(f), why, endp), {"where": astx.loc(f)})
    # positive controls (expected count on the library is zero for IT3/IT4 violations)
    fx = D.load_source('#include "%s"\n' % FIXTURE, root=os.path.dirname(FIXTURE) + "/", tag="fixture-iter")
    fxf = dict((g["n"], g) for g in fx.funcs)
    r3 = IT.check_output(chk, fxf["copy_two"]) if "copy_two" in fxf else None
    r4 = IT.check_reverse(chk, fxf["shift_down_scan"]) if "shift_down_scan" in fxf else []
    if not (r3 and r3[0] == "bad"):
        chk.analysis_broken("IT3: the positive control fixture::copy_two was not reported")
    if not any(not h for _c, _b, _l, h in r4):
        chk.analysis_broken("IT4: the positive control fixture::shift_down_scan was not reported")
    nt = tie_rule(chk, db)
    nrel = rel.check(chk, db, ["_iterator/reverse_iterator.hpp"])
    chk.extra["not_modelled"] = not_modelled
    chk.extra["functions_analysed"] = len(funcs)
    if n_scan < 60:
        chk.analysis_broken("IT1: only %d algorithms with a modelled scan cursor (floor 60)" % n_scan)
    if n_f < 70:
        chk.analysis_broken("IT2: only %d functor/default overloads (floor 70)" % n_f)
    if chk.rule_instances.get("REL", 0) < 6:      # operators found (an unmodelled body is UNKNOWN, not a lost subject)
        chk.analysis_broken("REL: reverse_iterator operators not modelled")
    chk.assumptions += [
        "resulting sequences and match positions are run-time values and are not decided in general (search_n's match start, the "
        "counting logic of is_permutation / find_end, stability of the sorts are invisible to these rules)",
        "cursors advanced by iterator arithmetic (advance/next/prev/+n/--) are not modelled; they are listed under not_modelled",
        "trailing cursors (write positions that follow the scan cursor) are not required to be checked themselves",
    ]
