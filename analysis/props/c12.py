"""C12 - duration arithmetic: type-level clause (W-TYPES) + ordering rules for floor/ceil/round (added later)."""
from witness import wit, c12 as gen

META = ("W-TYPES: result types, well-formedness and convertibility of duration/time_point arithmetic, common_type, "
        "duration_cast/floor/ceil/round/abs equal std::chrono's for every ordered pair of (rep, period) on the grid; "
        "obligations type-checked by g++ -fsyntax-only",
        ["g++ 12.2 type checker", "libstdc++ 12 <chrono> as oracle"])


from analysis import astx, db as D
from analysis.rules import sets as SP


# ---- CAST: the four duration_cast kernels compute count * num / den in the common type, in that order -------------
def _skel(e, leaves):
    """arithmetic skeleton of an expression: ('*', a, b) / ('/', a, b) / leaf name / None; casts and constructions of a single
    argument are transparent; `cast_of` records the type each leaf was cast to"""
    if e is None:
        return None
    k = e.get("k")
    if k == "paren":
        return _skel(e.get("e"), leaves)
    if k == "cast":
        inner = _skel(e["e"], leaves)
        if isinstance(inner, str):
            leaves.setdefault(inner, []).append(e.get("ty") or "")
        return inner
    if k in ("construct", "initlist", "parenlist") and len(e.get("a", [])) == 1:
        return _skel(e["a"][0], leaves)
    if k == "bin" and e["op"] in ("*", "/", "+", "-", "%"):
        return (e["op"], _skel(e["l"], leaves), _skel(e["r"], leaves))
    if k == "call" and astx.callee(e)[0] == "count":
        return "count"
    if k in ("mem", "ref") and e.get("n") in ("num", "den") and (e.get("qual") or k == "ref"):
        return e["n"]
    txt = astx.show(e, 40).replace(" ", "")
    if txt.endswith("::num"):
        return "num"
    if txt.endswith("::den"):
        return "den"
    if k == "ref":
        return "var:" + e["n"]
    return None


def _inline_locals(f, e):
    """substitute single-assignment locals by their initialisers (the kernels are straight-line)"""
    env = {}
    for st in astx.walk_stmts(f["body"]):
        if st.get("k") == "decl":
            for v in st["vars"]:
                if "other" not in v and v.get("init") is not None:
                    env[v["n"]] = v["init"]

    def sub(x, depth=0):
        if x is None or depth > 6:
            return x
        if x.get("k") == "ref" and x.get("d") == "local" and x["n"] in env:
            return sub(env[x["n"]], depth + 1)
        y = dict(x)
        for key in ("e", "l", "r"):
            if isinstance(y.get(key), dict):
                y[key] = sub(y[key], depth + 1)
        if isinstance(y.get("a"), list):
            y["a"] = [sub(a, depth + 1) if isinstance(a, dict) else a for a in y["a"]]
        return y
    return sub(e)


CAST_TABLE = {
    ("false", "false"): ("/", ("*", "count", "num"), "den"),
    ("true", "false"): ("/", "count", "den"),
    ("false", "true"): ("*", "count", "num"),
    ("true", "true"): "count",
}


def cast_rule(chk, db):
    n = 0
    for f in db.funcs:
        rec = f.get("record") or ""
        if "duration_cast_impl" not in rec or f["n"] != "cast" or f.get("body") is None:
            continue
        m = None
        args = rec.split("<", 1)[1].rsplit(">", 1)[0].replace(" ", "").split(",") if "<" in rec else None
        key = ("false", "false") if args is None else (args[-2], args[-1])
        if key not in CAST_TABLE:
            continue
        n += 1
        construct = "%s::cast" % rec
        chk.instance("CAST")
        rets = [st for st in astx.walk_stmts(f["body"]) if st.get("k") == "return" and st.get("e") is not None]
        leaves = {}
        sk = _skel(_inline_locals(f, rets[-1]["e"]), leaves) if len(rets) == 1 else None
        want = CAST_TABLE[key]
        ok = sk == want
        msg = ""
        if not ok:
            msg = "computes %s where count%s%s is specified (multiplication before the truncating division)" % (
                sk, " * num" if key[0] == "false" else "", " / den" if key[1] == "false" else "")
        elif key != ("true", "true"):
            wrong = [(lf, tys) for lf, tys in leaves.items() if lf in ("count", "num", "den") and not any(t.replace(" ", "") == "CR" for t in tys)]
            for lf in ("count",) + (("num",) if key[0] == "false" else ()) + (("den",) if key[1] == "false" else ()):
                if lf not in leaves:
                    wrong.append((lf, []))
            if wrong:
                ok = False
                msg = "operand `%s` is not converted to the common type CR before the arithmetic" % wrong[0][0]
        chk.obligation("CAST", construct, ok)
        if not ok:
            chk.violation("CAST", construct, "cast-shape", "%s: %s" % (astx.loc(f), msg), {"where": astx.loc(f)})
    if n < 4:
        chk.analysis_broken("CAST: only %d duration_cast_impl kernels found (4 expected)" % n)
    # the dispatcher selects the kernel from cf::num == 1 / cf::den == 1, in that order
    ds = [f for f in db.by_q.get("etl::chrono::duration_cast", []) if f.get("body") is not None]
    if not ds:
        chk.analysis_broken("CAST: etl::chrono::duration_cast no longer exists")
        return
    f = ds[0]
    chk.instance("CAST")
    aliases = dict((a["n"], a.get("ty") or a.get("target") or "") for a in (f.get("aliases") or []))
    src = " ".join(st.get("src", "") for st in astx.walk_stmts(f["body"]))
    txt = " ".join([src] + list(aliases.values())).replace(" ", "")
    import re
    mm = re.search(r"duration_cast_impl<([^;]*?)>(?:;|::)", txt)
    verdict, why = None, "the kernel selection is not a recognisable duration_cast_impl<To, cf, cr, A, B>"
    if mm:
        targs = mm.group(1).replace("(", "").replace(")", "").split(",")
        if len(targs) >= 5:
            def kind(t):
                if re.fullmatch(r"\w+::num==1|1==\w+::num", t):
                    return "num"
                if re.fullmatch(r"\w+::den==1|1==\w+::den", t):
                    return "den"
                return None
            ka, kb = kind(targs[-2]), kind(targs[-1])
            if (ka, kb) == ("num", "den"):
                verdict = True
            elif ka is not None and kb is not None:
                verdict, why = False, "the kernel is selected by <%s, %s>; the kernels are specialised on <NumIsOne, DenIsOne>" % (targs[-2], targs[-1])
    if verdict and not re.search(r"ratio_divide<Period,typename\w+::period>", txt):
        if re.search(r"ratio_divide<typename\w+::period,Period>", txt):
            verdict, why = False, "the conversion factor is To::period / Period; specified: Period / To::period"
        else:
            verdict, why = None, "the conversion factor is not a recognisable ratio_divide"
    chk.obligation("CAST", "etl::chrono::duration_cast (dispatch)", verdict)
    if verdict is False:
        chk.violation("CAST", "etl::chrono::duration_cast (dispatch)", "dispatch", "%s: %s" % (astx.loc(f), why), {"where": astx.loc(f)})
    elif verdict is None:
        chk.unknown_instance("CAST", "etl::chrono::duration_cast (dispatch)", why)


# ---- ROUND: floor / ceil / round as decision tables over the orderings they distinguish ----------------------------
def _ord_truth(c, a, b, o):
    """truth of a comparison between locals a and b in the world a <o> b"""
    c = astx.strip_casts(c)
    if c is None or c.get("k") != "bin" or c["op"] not in ("<", ">", "<=", ">=", "==", "!="):
        return None
    l, r = astx.strip_casts(c["l"]), astx.strip_casts(c["r"])
    if l is None or r is None or l.get("k") != "ref" or r.get("k") != "ref":
        return None
    if (l["n"], r["n"]) == (a, b):
        oo = o
    elif (l["n"], r["n"]) == (b, a):
        oo = {"<": ">", "=": "=", ">": "<"}[o]
    else:
        return None
    return oo in {"==": "=", "!=": "<>", "<": "<", ">": ">", "<=": "<=", ">=": ">="}[c["op"]]


def _step(e, t):
    """classify a returned duration: 't', 't+1', 't-1' (t a local name), else None"""
    leaves = {}
    sk = _skel(e, leaves)
    if sk == "var:" + t:
        return "t"
    if isinstance(sk, tuple) and sk[0] in ("+", "-"):
        l, r = sk[1], sk[2]
        e0 = e
        # the literal one: any cast/construct of the integer literal 1
        def is_one(x):
            return x is None
        if l in ("count", "var:" + t):
            ones = [x for x in astx.walk_expr(e) if x.get("k") == "int"]
            if len(ones) == 1 and str(ones[0].get("v")) == "1":
                return "t" + sk[0] + "1"
    return None


def round_rule(chk, db):
    spec = {"floor": {"<": "t", "=": "t", ">": "t-1"}, "ceil": {"<": "t+1", "=": "t", ">": "t"}}
    n = 0
    for name, table in spec.items():
        fs = [f for f in db.by_q.get("etl::chrono::" + name, []) if f.get("body") is not None and "duration<" in f["params"][0]["ty"]]
        if not fs:
            chk.analysis_broken("ROUND: etl::chrono::%s(duration) no longer exists" % name)
            continue
        f = fs[0]
        d = f["params"][0]["n"]
        tvars = [v["n"] for st in astx.walk_stmts(f["body"]) if st.get("k") == "decl" for v in st["vars"]
                 if "other" not in v and v.get("init") is not None and any(astx.callee(c)[0] == "duration_cast" for c in SP.calls_in(v["init"]))]
        construct = astx.sig(f)
        chk.instance("ROUND")
        n += 1
        if len(tvars) != 1:
            chk.obligation("ROUND", construct, None)
            chk.unknown_instance("ROUND", construct, "no single local holds duration_cast<To>(d)")
            continue
        t = tvars[0]
        got = {}
        modelled = True
        for o in "<=>":
            for p in SP.paths(f["body"]):
                feas = True
                for ev in p:
                    if ev[0] == "cond":
                        tr = _ord_truth(ev[1], t, d, o)
                        if tr is None:
                            modelled = False
                        elif tr != ev[2]:
                            feas = False
                    if ev[0] == "ret" and feas:
                        got.setdefault(o, set()).add(_step(ev[1], t))
        bad = [(o, sorted(map(str, got.get(o, set())))) for o in "<=>" if got.get(o, set()) != {table[o]}]
        ok = (not bad) if modelled else None
        chk.obligation("ROUND", construct, ok)
        if modelled and bad:
            o, g = bad[0]
            chk.violation("ROUND", construct, "rounding-table", "%s: when duration_cast<To>(d) %s d, %s returns %s; specified: %s" % (
                astx.loc(f), {"<": "<", "=": "==", ">": ">"}[o], name, "/".join(g) or "nothing", table[o]), {"where": astx.loc(f)})
        elif not modelled:
            chk.unknown_instance("ROUND", construct, "a test is not a comparison of the cast result with the argument")
    # round: nearest, ties to even
    fs = [f for f in db.by_q.get("etl::chrono::round", []) if f.get("body") is not None and "duration<" in f["params"][0]["ty"]]
    if not fs:
        chk.analysis_broken("ROUND: etl::chrono::round(duration) no longer exists")
        return
    f = fs[0]
    construct = astx.sig(f)
    chk.instance("ROUND")
    env = {}
    for st in astx.walk_stmts(f["body"]):
        if st.get("k") == "decl":
            for v in st["vars"]:
                if "other" not in v and v.get("init") is not None:
                    env[v["n"]] = v["init"]
    d = f["params"][0]["n"]
    low = [k for k, v in env.items() if any(astx.callee(c)[0] == "floor" for c in SP.calls_in(v))]
    problems = []
    if len(low) != 1:
        chk.obligation("ROUND", construct, None)
        chk.unknown_instance("ROUND", construct, "no single local holds floor<To>(d)")
        return
    low = low[0]

    def role(name):
        """'low' | 'high' (low + 1) | 'lowDiff' (d - low) | 'highDiff' (high - d)"""
        if name == low:
            return "low"
        v = astx.strip_casts(env.get(name))
        if v is None or v.get("k") != "bin":
            return None
        l, r = astx.strip_casts(v["l"]), astx.strip_casts(v["r"])
        ln = l.get("n") if l is not None and l.get("k") == "ref" else None
        rn = r.get("n") if r is not None and r.get("k") == "ref" else None
        if v["op"] == "+" and ln == low and _skel(v["r"], {}) is None and [x.get("v") for x in astx.walk_expr(v["r"]) if x.get("k") == "int"] == ["1"]:
            return "high"
        if v["op"] == "-" and ln == d and rn is not None and role(rn) == "low":
            return "lowDiff"
        if v["op"] == "-" and rn == d and ln is not None and role(ln) == "high":
            return "highDiff"
        return None
    roles = dict((k, role(k)) for k in env)
    ld = [k for k, r in roles.items() if r == "lowDiff"]
    hd = [k for k, r in roles.items() if r == "highDiff"]
    if len(ld) != 1 or len(hd) != 1:
        chk.obligation("ROUND", construct, None)
        chk.unknown_instance("ROUND", construct, "the distances to the two neighbours are not recognisable locals")
        return
    want = {"<": "low", ">": "high"}
    got = {}
    parity = None
    for o in "<=>":
        for p in SP.paths(f["body"]):
            feas = True
            for ev in p:
                if ev[0] == "cond":
                    tr = _ord_truth(ev[1], ld[0], hd[0], o)
                    if tr is None:
                        feas = False
                    elif tr != ev[2]:
                        feas = False
                if ev[0] == "ret" and feas:
                    e = astx.strip_casts(ev[1])
                    if e is not None and e.get("k") == "ref":
                        got.setdefault(o, set()).add(roles.get(e["n"]))
                    elif e is not None and e.get("k") == "cond":
                        got.setdefault(o, set()).add("parity")
                        parity = e
                    else:
                        got.setdefault(o, set()).add(None)
    for o in "<>":
        if got.get(o) != {want[o]}:
            problems.append("when the distance to the lower neighbour is %s the distance to the upper one, round returns %s (specified: %s)" % (
                "less than" if o == "<" else "greater than", "/".join(sorted(map(str, got.get(o, set())))) or "nothing", want[o]))
    if got.get("=") != {"parity"} or parity is None:
        problems.append("a tie is not resolved by the parity of the lower neighbour")
    else:
        # abstract evaluation of the parity test over sign x parity of low.count()
        def aval(x, cls):
            x = astx.strip_casts(x)
            if x is None:
                return None
            if x.get("k") == "paren":
                return aval(x.get("e"), cls)
            if x.get("k") == "int":
                return int(x["v"])
            if x.get("k") == "call" and astx.callee(x)[0] == "count":
                b = astx.strip_casts(astx.callee(x)[2])
                if b is not None and b.get("k") == "ref" and roles.get(b["n"]) == "low":
                    return cls
                return None
            if x.get("k") == "bin":
                a, b = aval(x["l"], cls), aval(x["r"], cls)
                if a is None or b is None:
                    return None
                sign, odd = (a if isinstance(a, tuple) else (None, None))
                if isinstance(a, tuple) and isinstance(b, int):
                    if x["op"] == "&" and b == 1:
                        return 1 if odd else 0
                    if x["op"] == "%" and b == 2:
                        return (sign if odd else 0)
                    return None
                if isinstance(a, int) and isinstance(b, int):
                    return {"==": int(a == b), "!=": int(a != b), "<": int(a < b), ">": int(a > b), "<=": int(a <= b), ">=": int(a >= b)}.get(x["op"])
            if x.get("k") == "un" and x["op"] == "!":
                a = aval(x["e"], cls)
                return None if a is None or isinstance(a, tuple) else int(not a)
            return None
        for sign in (1, -1):
            for odd in (True, False):
                v = aval(parity["c"], (sign, odd))
                if v is None or isinstance(v, tuple):
                    problems.append("the parity test `%s` is not a modelled form" % astx.show(parity["c"], 40))
                    break
                tn = astx.strip_casts(parity["t"]) if v else astx.strip_casts(parity["f"])
                chosen = roles.get(tn.get("n")) if tn is not None and tn.get("k") == "ref" else None
                need = "high" if odd else "low"
                if chosen != need:
                    problems.append("on a tie with a %s %s lower neighbour round returns %s (ties go to the even neighbour: %s)" % (
                        "negative" if sign < 0 else "positive", "odd" if odd else "even", chosen, need))
            else:
                continue
            break
    chk.obligation("ROUND", construct, not problems)
    for m in problems[:2]:
        chk.violation("ROUND", construct, "rounding-table", "%s: %s" % (astx.loc(f), m), {"where": astx.loc(f)})


def conv_rule(chk, db):
    """CONV: duration's converting constructor is enabled for floating-point ticks whatever the ratio of the periods is, so
    its value must be count * num / den (or a duration_cast); with integer ticks the constraint makes den == 1."""
    cs = [f for f in db.by_q.get("etl::chrono::duration::<ctor>", []) if len(f["params"]) == 1 and "duration<" in f["params"][0]["ty"]
          and "Rep2" in f["params"][0]["ty"]]
    if not cs:
        chk.analysis_broken("CONV: duration(duration<Rep2, Period2> const&) no longer exists")
        return
    f = cs[0]
    construct = astx.sig(f)
    chk.instance("CONV")
    inits = [i for i in (f.get("inits") or []) if i.get("field")]
    e = inits[0]["e"] if len(inits) == 1 else None
    ok, msg = None, "the initialiser of the tick count is not recognisable"
    if e is not None:
        if any(astx.callee(c)[0] == "duration_cast" for c in SP.calls_in(e)):
            ok = True
        else:
            sk = _skel(e, {})
            if sk == ("/", ("*", "count", "num"), "den"):
                ok = True
            elif sk in (("*", "count", "num"), "count", ("/", "count", "den"), ("*", ("/", "count", "den"), "num")):
                ok, msg = False, "the tick count is %s; for floating-point ticks the periods need not divide, the value is count * num / den" % (sk,)
    chk.obligation("CONV", construct, ok)
    if ok is False:
        chk.violation("CONV", construct, "conversion-factor", "%s: %s" % (astx.loc(f), msg), {"where": astx.loc(f)})
    elif ok is None:
        chk.unknown_instance("CONV", construct, msg)


META_EXTRA = 'CAST / CONV (conversion arithmetic skeleton count*num/den in the common type; kernel selection); ROUND (floor/ceil/round decision tables, sign-robust parity).'
META = (META[0] + " " + META_EXTRA, META[1])


def run(chk, tier):
    quick = tier == "quick"
    db = D.load("checks")
    cast_rule(chk, db)
    conv_rule(chk, db)
    round_rule(chk, db)
    tus, info = gen.generate(quick)
    res = wit.compile_many(tus, compiler="g++", jobs=16)
    total = 0
    for tu in tus:
        results, unattributed = res[tu.name]
        wit.judge(chk, "W-TYPES", tu, results, unattributed)
        chk.instance("W-TYPES:" + tu.name, len(tu.obl))
        total += len(tu.obl)
        for line, ob in list(tu.obl.items())[5:6]:
            chk.sample({"tu": tu.name, "obligation": ob["label"], "code": ob["code"][:300]})
    chk.extra.update(info)
    chk.extra["units"] = len(tus)
    if total < (3000 if quick else 20000):
        chk.analysis_broken("only %d chrono type obligations generated" % total)
    chk.assumptions += [
        "values of casts and rounding (ties-to-even, negative counts, overflow) are run-time values and are not decided "
        "by the type-level clause",
        "g++ 12 / libstdc++ 12 <chrono> is the oracle for result types",
    ]
