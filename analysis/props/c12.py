"""C12 - duration arithmetic: type-level clause (W-TYPES) + ordering rules for floor/ceil/round (added later)."""
from witness import wit, c12 as gen

META = ("W-TYPES: result types, well-formedness and convertibility of duration/time_point arithmetic, common_type, "
        "duration_cast/floor/ceil/round/abs equal std::chrono's for every ordered pair of (rep, period) on the grid; "
        "obligations type-checked by g++ -fsyntax-only",
        ["g++ 12.2 type checker", "libstdc++ 12 <chrono> as oracle"])


def run(chk, tier):
    quick = tier == "quick"
    tus, info = gen.generate(quick)
    res = wit.compile_many(tus, compiler="g++", jobs=16)
    total = 0
    for tu in tus:
        results, unattributed = res[tu.name]
        wit.judge(chk, "W-TYPES", tu, results, unattributed)
        chk.instance("W-TYPES:" + tu.name, len(tu.obl))
        total += len(tu.obl)
        for line, ob in list(tu.obl.items())[5:6]:
            chk.sample({"tu": tu.name, "obligation": ob["label"], "code": ob["code"][:300]})
    chk.extra.update(info)
    chk.extra["units"] = len(tus)
    if total < (3000 if quick else 20000):
        chk.analysis_broken("only %d chrono type obligations generated" % total)
    chk.assumptions += [
        "values of casts and rounding (ties-to-even, negative counts, overflow) are run-time values and are not decided "
        "by the type-level clause",
        "g++ 12 / libstdc++ 12 <chrono> is the oracle for result types",
    ]
