"""C12 - duration arithmetic: type-level clause (W-TYPES) + ordering rules for floor/ceil/round (added later)."""
import re
from witness import wit, c12 as gen

META = ("W-TYPES: result types, well-formedness and convertibility of duration/time_point arithmetic, common_type, "
        "duration_cast/floor/ceil/round/abs equal std::chrono's for every ordered pair of (rep, period) on the grid; "
        "obligations type-checked by g++ -fsyntax-only",
        ["g++ 12.2 type checker", "libstdc++ 12 <chrono> as oracle"])


from analysis import astx, db as D
from analysis.rules import sets as SP


# ---- CAST: the four duration_cast kernels compute count * num / den in the common type, in that order -------------
def _skel(e, leaves):
    """arithmetic skeleton of an expression: ('*', a, b) / ('/', a, b) / leaf name / None; casts and constructions of a single
    argument are transparent; `cast_of` records the type each leaf was cast to"""
    if e is None:
        return None
    k = e.get("k")
    if k == "paren":
        return _skel(e.get("e"), leaves)
    if k == "cast":
        inner = _skel(e["e"], leaves)
        if isinstance(inner, str):
            leaves.setdefault(inner, []).append(e.get("ty") or "")
        return inner
    if k in ("construct", "initlist", "parenlist") and len(e.get("a", [])) == 1:
        return _skel(e["a"][0], leaves)
    if k == "bin" and e["op"] in ("*", "/", "+", "-", "%"):
        return (e["op"], _skel(e["l"], leaves), _skel(e["r"], leaves))
    if k == "call" and astx.callee(e)[0] == "count":
        return "count"
    if k in ("mem", "ref") and e.get("n") in ("num", "den") and (e.get("qual") or k == "ref"):
        return e["n"]
    txt = astx.show(e, 40).replace(" ", "")
    if txt.endswith("::num"):
        return "num"
    if txt.endswith("::den"):
        return "den"
    if k == "ref":
        return "var:" + e["n"]
    return None


def _inline_locals(f, e):
    """substitute single-assignment locals by their initialisers (the kernels are straight-line)"""
    env = {}
    for st in astx.walk_stmts(f["body"]):
        if st.get("k") == "decl":
            for v in st["vars"]:
                if "other" not in v and v.get("init") is not None:
                    env[v["n"]] = v["init"]

    def sub(x, depth=0):
        if x is None or depth > 6:
            return x
        if x.get("k") == "ref" and x.get("d") == "local" and x["n"] in env:
            return sub(env[x["n"]], depth + 1)
        y = dict(x)
        for key in ("e", "l", "r"):
            if isinstance(y.get(key), dict):
                y[key] = sub(y[key], depth + 1)
        if isinstance(y.get("a"), list):
            y["a"] = [sub(a, depth + 1) if isinstance(a, dict) else a for a in y["a"]]
        return y
    return sub(e)


CAST_TABLE = {
    ("false", "false"): ("/", ("*", "count", "num"), "den"),
    ("true", "false"): ("/", "count", "den"),
    ("false", "true"): ("*", "count", "num"),
    ("true", "true"): "count",
}


def cast_rule(chk, db):
    n = 0
    for f in db.funcs:
        rec = f.get("record") or ""
        if "duration_cast_impl" not in rec or f["n"] != "cast" or f.get("body") is None:
            continue
        m = None
        args = rec.split("<", 1)[1].rsplit(">", 1)[0].replace(" ", "").split(",") if "<" in rec else None
        key = ("false", "false") if args is None else (args[-2], args[-1])
        if key not in CAST_TABLE:
            continue
        n += 1
        construct = "%s::cast" % rec
        chk.instance("CAST")
        rets = [st for st in astx.walk_stmts(f["body"]) if st.get("k") == "return" and st.get("e") is not None]
        leaves = {}
        sk = _skel(_inline_locals(f, rets[-1]["e"]), leaves) if len(rets) == 1 else None
        want = CAST_TABLE[key]
        ok = sk == want
        msg = ""
        if not ok:
            msg = "computes %s where count%s%s is specified (multiplication before the truncating division)" % (
                sk, " * num" if key[0] == "false" else "", " / den" if key[1] == "false" else "")
        elif key != ("true", "true"):
            wrong = [(lf, tys) for lf, tys in leaves.items() if lf in ("count", "num", "den") and not any(t.replace(" ", "") == "CR" for t in tys)]
            for lf in ("count",) + (("num",) if key[0] == "false" else ()) + (("den",) if key[1] == "false" else ()):
                if lf not in leaves:
                    wrong.append((lf, []))
            if wrong:
                ok = False
                msg = "operand `%s` is not converted to the common type CR before the arithmetic" % wrong[0][0]
        chk.obligation("CAST", construct, ok)
        if not ok:
            chk.violation("CAST", construct, "cast-shape", "%s: %s" % (astx.loc(f), msg), {"where": astx.loc(f)})
    if n < 4:
        chk.analysis_broken("CAST: only %d duration_cast_impl kernels found (4 expected)" % n)
    # the dispatcher selects the kernel from cf::num == 1 / cf::den == 1, in that order
    ds = [f for f in db.by_q.get("etl::chrono::duration_cast", []) if f.get("body") is not None]
    if not ds:
        chk.analysis_broken("CAST: etl::chrono::duration_cast no longer exists")
        return
    f = ds[0]
    chk.instance("CAST")
    aliases = dict((a["n"], a.get("ty") or a.get("target") or "") for a in (f.get("aliases") or []))
    src = " ".join(st.get("src", "") for st in astx.walk_stmts(f["body"]))
    txt = " ".join([src] + list(aliases.values())).replace(" ", "")
    import re
    mm = re.search(r"duration_cast_impl<([^;]*?)>(?:;|::)", txt)
    verdict, why = None, "the kernel selection is not a recognisable duration_cast_impl<To, cf, cr, A, B>"
    if mm:
        targs = mm.group(1).replace("(", "").replace(")", "").split(",")
        if len(targs) >= 5:
            def kind(t):
                if re.fullmatch(r"\w+::num==1|1==\w+::num", t):
                    return "num"
                if re.fullmatch(r"\w+::den==1|1==\w+::den", t):
                    return "den"
                return None
            ka, kb = kind(targs[-2]), kind(targs[-1])
            if (ka, kb) == ("num", "den"):
                verdict = True
            elif ka is not None and kb is not None:
                verdict, why = False, "the kernel is selected by <%s, %s>; the kernels are specialised on <NumIsOne, DenIsOne>" % (targs[-2], targs[-1])
    if verdict and not re.search(r"ratio_divide<Period,typename\w+::period>", txt):
        if re.search(r"ratio_divide<typename\w+::period,Period>", txt):
            verdict, why = False, "the conversion factor is To::period / Period; specified: Period / To::period"
        else:
            verdict, why = None, "the conversion factor is not a recognisable ratio_divide"
    chk.obligation("CAST", "etl::chrono::duration_cast (dispatch)", verdict)
    if verdict is False:
        chk.violation("CAST", "etl::chrono::duration_cast (dispatch)", "dispatch", "%s: %s" % (astx.loc(f), why), {"where": astx.loc(f)})
    elif verdict is None:
        chk.unknown_instance("CAST", "etl::chrono::duration_cast (dispatch)", why)


# ---- ROUND: floor / ceil / round as decision tables over the orderings they distinguish ----------------------------
def _ord_truth(c, a, b, o):
    """truth of a comparison between locals a and b in the world a <o> b"""
    c = astx.strip_casts(c)
    if c is None or c.get("k") != "bin" or c["op"] not in ("<", ">", "<=", ">=", "==", "!="):
        return None
    l, r = astx.strip_casts(c["l"]), astx.strip_casts(c["r"])
    if l is None or r is None or l.get("k") != "ref" or r.get("k") != "ref":
        return None
    if (l["n"], r["n"]) == (a, b):
        oo = o
    elif (l["n"], r["n"]) == (b, a):
        oo = {"<": ">", "=": "=", ">": "<"}[o]
    else:
        return None
    return oo in {"==": "=", "!=": "<>", "<": "<", ">": ">", "<=": "<=", ">=": ">="}[c["op"]]


def _step(e, t):
    """classify a returned duration: 't', 't+1', 't-1' (t a local name), else None"""
    leaves = {}
    sk = _skel(e, leaves)
    if sk == "var:" + t:
        return "t"
    if isinstance(sk, tuple) and sk[0] in ("+", "-"):
        l, r = sk[1], sk[2]
        e0 = e
        # the literal one: any cast/construct of the integer literal 1
        def is_one(x):
            return x is None
        if l in ("count", "var:" + t):
            ones = [x for x in astx.walk_expr(e) if x.get("k") == "int"]
            if len(ones) == 1 and str(ones[0].get("v")) == "1":
                return "t" + sk[0] + "1"
    return None


class _NotModelled(Exception):
    pass


class _RoundEval:
    """Evaluates a rounding function as a decision procedure in one abstract world: an ordering between two named
    quantities (`rel` = (a, b, '<'|'='|'>')) and, for round, the sign x parity class of low.count(). Locals are resolved
    through their initialisers; `if`/`return`, conditional expressions, boolean locals, &&, ||, ! are interpreted."""

    def __init__(self, f, rel, roles, parity=None):
        self.f, self.rel, self.roles, self.parity = f, rel, roles, parity
        self.env = {}

    def bool(self, e):
        e = astx.strip_casts(e)
        if e is None:
            raise _NotModelled("empty condition")
        k = e.get("k")
        if k == "paren":
            return self.bool(e.get("e"))
        if k == "bool":
            return bool(e["v"])
        if k == "ref" and e.get("d") == "local" and e["n"] in self.env:
            return self.bool(self.env[e["n"]])
        if k == "un" and e["op"] == "!":
            return not self.bool(e["e"])
        if k == "bin" and e["op"] == "&&":
            return self.bool(e["l"]) and self.bool(e["r"])
        if k == "bin" and e["op"] == "||":
            return self.bool(e["l"]) or self.bool(e["r"])
        if k == "cond":
            return self.bool(e["t"]) if self.bool(e["c"]) else self.bool(e["f"])
        if k == "bin" and e["op"] in ("<", ">", "<=", ">=", "==", "!="):
            l, r = astx.strip_casts(e["l"]), astx.strip_casts(e["r"])
            if l is not None and r is not None and l.get("k") == "ref" and r.get("k") == "ref":
                a, b, o = self.rel
                names = (l["n"], r["n"])
                if names == (a, b):
                    oo = o
                elif names == (b, a):
                    oo = {"<": ">", "=": "=", ">": "<"}[o]
                else:
                    raise _NotModelled("comparison of %s and %s" % names)
                return oo in {"==": "=", "!=": "<>", "<": "<", ">": ">", "<=": "<=", ">=": ">="}[e["op"]]
            a, b = self.num(e["l"]), self.num(e["r"])
            return {"==": a == b, "!=": a != b, "<": a < b, ">": a > b, "<=": a <= b, ">=": a >= b}[e["op"]]
        v = self.num(e)
        return v != 0

    def num(self, e):
        """small integers arising in parity tests"""
        e = astx.strip_casts(e)
        if e is None:
            raise _NotModelled("empty")
        k = e.get("k")
        if k == "paren":
            return self.num(e.get("e"))
        if k == "int":
            return int(e["v"])
        if k == "ref" and e.get("d") == "local" and e["n"] in self.env:
            return self.num(self.env[e["n"]])
        if k == "call" and astx.callee(e)[0] == "count" and self.parity is not None:
            b = astx.strip_casts(astx.callee(e)[2])
            if b is not None and b.get("k") == "ref" and self.roles.get(b["n"]) == "low":
                return ("low",)
            raise _NotModelled("count() of " + astx.show(b, 20))
        if k == "bin" and e["op"] in ("&", "%"):
            a, b = self.num(e["l"]), self.num(e["r"])
            if a == ("low",) and isinstance(b, int):
                sign, odd = self.parity
                if e["op"] == "&" and b == 1:
                    return 1 if odd else 0
                if e["op"] == "%" and b == 2:
                    return sign if odd else 0
            raise _NotModelled("arithmetic " + astx.show(e, 30))
        raise _NotModelled("expression " + astx.show(e, 30))

    def value(self, e):
        """classification of a returned duration: role name, 't+1' / 't-1', or None"""
        e0 = astx.strip_casts(e)
        if e0 is None:
            return None
        if e0.get("k") == "paren":
            return self.value(e0.get("e"))
        if e0.get("k") == "cond":
            return self.value(e0["t"]) if self.bool(e0["c"]) else self.value(e0["f"])
        if e0.get("k") == "ref":
            if e0["n"] in self.roles:
                return self.roles[e0["n"]]
            if e0.get("d") == "local" and e0["n"] in self.env:
                return self.value(self.env[e0["n"]])
            return None
        t = [n for n, r in self.roles.items() if r == "t"]
        if t:
            return _step(e, t[0])
        return None

    def run(self, s):
        """returns the classified return value, or raises _NotModelled"""
        k = s.get("k") if s else None
        if s is None or k == "null":
            return None
        if k == "seq":
            for c in s["s"]:
                r = self.run(c)
                if r is not None:
                    return r
            return None
        if k == "decl":
            for v in s["vars"]:
                if "other" not in v and v.get("init") is not None:
                    self.env[v["n"]] = v["init"]
            return None
        if k == "return":
            return ("ret", self.value(s.get("e")))
        if k == "if":
            if s.get("init"):
                self.run(s["init"])
            br = s.get("then") if self.bool(s["c"]) else s.get("else")
            return self.run(br) if br else None
        if k == "expr":
            return None
        raise _NotModelled("statement " + str(k))


def round_rule(chk, db):
    spec = {"floor": {"<": "t", "=": "t", ">": "t-1"}, "ceil": {"<": "t+1", "=": "t", ">": "t"}}
    for name, table in spec.items():
        fs = [f for f in db.by_q.get("etl::chrono::" + name, []) if f.get("body") is not None and "duration<" in f["params"][0]["ty"]]
        if not fs:
            chk.analysis_broken("ROUND: etl::chrono::%s(duration) no longer exists" % name)
            continue
        f = fs[0]
        d = f["params"][0]["n"]
        tvars = [v["n"] for st in astx.walk_stmts(f["body"]) if st.get("k") == "decl" for v in st["vars"]
                 if "other" not in v and v.get("init") is not None and any(astx.callee(c)[0] == "duration_cast" for c in SP.calls_in(v["init"]))]
        construct = astx.sig(f)
        chk.instance("ROUND")
        if len(tvars) != 1:
            chk.obligation("ROUND", construct, None)
            chk.unknown_instance("ROUND", construct, "no single local holds duration_cast<To>(d)")
            continue
        t = tvars[0]
        bad = None
        unknown = None
        for o in "<=>":
            ev_ = _RoundEval(f, (t, d, o), {t: "t"})
            try:
                r = ev_.run(f["body"])
            except _NotModelled as ex:
                unknown = str(ex)
                break
            got = r[1] if r else None
            if got != table[o] and bad is None:
                bad = (o, got)
        chk.obligation("ROUND", construct, None if unknown else (bad is None))
        if unknown:
            chk.unknown_instance("ROUND", construct, "not a modelled decision procedure: " + unknown)
        elif bad:
            chk.violation("ROUND", construct, "rounding-table", "%s: when duration_cast<To>(d) %s d, %s returns %s; specified: %s" % (
                astx.loc(f), {"<": "<", "=": "==", ">": ">"}[bad[0]], name, bad[1], table[bad[0]]), {"where": astx.loc(f)})
    # round: nearest, ties to even
    fs = [f for f in db.by_q.get("etl::chrono::round", []) if f.get("body") is not None and "duration<" in f["params"][0]["ty"]]
    if not fs:
        chk.analysis_broken("ROUND: etl::chrono::round(duration) no longer exists")
        return
    f = fs[0]
    construct = astx.sig(f)
    chk.instance("ROUND")
    env = {}
    for st in astx.walk_stmts(f["body"]):
        if st.get("k") == "decl":
            for v in st["vars"]:
                if "other" not in v and v.get("init") is not None:
                    env[v["n"]] = v["init"]
    d = f["params"][0]["n"]
    low = [k for k, v in env.items() if any(astx.callee(c)[0] == "floor" for c in SP.calls_in(v))]
    if len(low) != 1:
        chk.obligation("ROUND", construct, None)
        chk.unknown_instance("ROUND", construct, "no single local holds floor<To>(d)")
        return
    low = low[0]

    def role(name):
        if name == low:
            return "low"
        v = astx.strip_casts(env.get(name))
        if v is None or v.get("k") != "bin":
            return None
        l, r = astx.strip_casts(v["l"]), astx.strip_casts(v["r"])
        ln = l.get("n") if l is not None and l.get("k") == "ref" else None
        rn = r.get("n") if r is not None and r.get("k") == "ref" else None
        if v["op"] == "+" and ln == low and [x.get("v") for x in astx.walk_expr(v["r"]) if x.get("k") == "int"] == ["1"]:
            return "high"
        if v["op"] == "-" and ln == d and rn is not None and role(rn) == "low":
            return "lowDiff"
        if v["op"] == "-" and rn == d and ln is not None and role(ln) == "high":
            return "highDiff"
        return None
    roles = dict((k, role(k)) for k in env)
    roles = dict((k, r) for k, r in roles.items() if r)
    ld = [k for k, r in roles.items() if r == "lowDiff"]
    hd = [k for k, r in roles.items() if r == "highDiff"]
    if len(ld) != 1 or len(hd) != 1:
        chk.obligation("ROUND", construct, None)
        chk.unknown_instance("ROUND", construct, "the distances to the two neighbours are not recognisable locals")
        return
    problems = []
    unknown = None
    for o in "<=>":
        for sign in (1, -1):
            for odd in (True, False):
                ev_ = _RoundEval(f, (ld[0], hd[0], o), roles, parity=(sign, odd))
                try:
                    r = ev_.run(f["body"])
                except _NotModelled as ex:
                    unknown = str(ex)
                    continue
                got = r[1] if r else None
                want = "low" if o == "<" else ("high" if o == ">" else ("high" if odd else "low"))
                if got != want:
                    where = {"<": "the lower neighbour is nearer", ">": "the upper neighbour is nearer",
                             "=": "on a tie with a %s %s lower neighbour" % ("negative" if sign < 0 else "positive", "odd" if odd else "even")}[o]
                    msg = "%s round returns %s (specified: %s)" % (where, got, want)
                    if msg not in problems:
                        problems.append(msg)
    chk.obligation("ROUND", construct, False if problems else (None if unknown else True))
    for m in problems[:2]:
        chk.violation("ROUND", construct, "rounding-table", "%s: %s" % (astx.loc(f), m), {"where": astx.loc(f)})
    if unknown and not problems:
        chk.unknown_instance("ROUND", construct, "not a modelled decision procedure: " + unknown)


def conv_rule(chk, db):
    """CONV: duration's converting constructor is enabled for floating-point ticks whatever the ratio of the periods is, so
    its value must be count * num / den (or a duration_cast); with integer ticks the constraint makes den == 1."""
    cs = [f for f in db.by_q.get("etl::chrono::duration::<ctor>", []) if len(f["params"]) == 1 and "duration<" in f["params"][0]["ty"]
          and "Rep2" in f["params"][0]["ty"]]
    if not cs:
        chk.analysis_broken("CONV: duration(duration<Rep2, Period2> const&) no longer exists")
        return
    f = cs[0]
    construct = astx.sig(f)
    chk.instance("CONV")
    inits = [i for i in (f.get("inits") or []) if i.get("field")]
    e = inits[0]["e"] if len(inits) == 1 else None
    ok, msg = None, "the initialiser of the tick count is not recognisable"
    if e is not None:
        if any(astx.callee(c)[0] == "duration_cast" for c in SP.calls_in(e)):
            ok = True
        else:
            sk = _skel(e, {})
            if sk == ("/", ("*", "count", "num"), "den"):
                ok = True
            elif sk in (("*", "count", "num"), "count", ("/", "count", "den"), ("*", ("/", "count", "den"), "num")):
                ok, msg = False, "the tick count is %s; for floating-point ticks the periods need not divide, the value is count * num / den" % (sk,)
    chk.obligation("CONV", construct, ok)
    if ok is False:
        chk.violation("CONV", construct, "conversion-factor", "%s: %s" % (astx.loc(f), msg), {"where": astx.loc(f)})
    elif ok is None:
        chk.unknown_instance("CONV", construct, msg)


def common_rule(chk, db):
    """COMMON: a binary operator on two durations of different types reads the tick counts only after both operands were
    converted to the common duration: `.count()` is never applied to a raw parameter there (the raw count of the coarser
    operand is in the wrong unit)."""
    n = 0
    for f in db.funcs:
        if not f["file"].startswith("_chrono/duration.hpp") or f.get("body") is None or len(f["params"]) != 2:
            continue
        tys = [p0["ty"] for p0 in f["params"]]
        if not all("duration<" in t for t in tys) or tys[0].replace("1", "").replace("2", "") != tys[1].replace("1", "").replace("2", "") or tys[0] == tys[1]:
            continue
        names = [p0["n"] for p0 in f["params"]]
        n += 1
        construct = astx.sig(f)
        chk.instance("COMMON")
        raw = []
        for x in astx.all_exprs(f):
            if x.get("k") == "call" and astx.callee(x)[0] == "count" and astx.callee(x)[3] == "member":
                b = astx.strip_casts(astx.callee(x)[2])
                if b is not None and b.get("k") == "ref" and b.get("n") in names:
                    raw.append(x)
        chk.obligation("COMMON", construct, not raw)
        for x in raw[:1]:
            chk.violation("COMMON", construct, "raw-count", "%s: `%s` reads the tick count of a parameter that has not been converted to the "
                          "common duration" % (astx.loc(f, x), astx.show(x, 40)), {"where": astx.loc(f)})
    if n < 6:
        chk.analysis_broken("COMMON: only %d mixed-type binary duration operators found (floor 6)" % n)


def compound_rule(chk, db):
    """COMPOUND: a compound assignment / increment operator of duration and time_point applies its own arithmetic operator to
    the representation: `operator-=` subtracts (`-=` or `-`), `operator++` adds one, ... . An operator of the opposite
    direction or another family in the body (`_d += d` inside `operator-=`) is reported."""
    allowed = {"+=": {"+=", "+"}, "-=": {"-=", "-"}, "*=": {"*=", "*"}, "/=": {"/=", "/"}, "%=": {"%=", "%"},
               "++": {"++", "+=", "+"}, "--": {"--", "-=", "-"}}
    family = {"+=", "-=", "*=", "/=", "%=", "+", "-", "*", "/", "%", "++", "--"}
    n = 0
    for f in db.funcs:
        if f.get("body") is None or f.get("kind") != "method" or not f["n"].startswith("operator"):
            continue
        if not (f["file"].startswith("_chrono/duration.hpp") or f["file"].startswith("_chrono/time_point.hpp")):
            continue
        op = f["n"][len("operator"):]
        if op not in allowed:
            continue
        used = []
        for x in astx.all_exprs(f):
            if x.get("k") == "bin" and x["op"] in family and not x.get("ovl", "").startswith("operator,"):
                used.append((x["op"], x))
            if x.get("k") == "un" and x["op"] in ("++", "--"):
                used.append((x["op"], x))
        if not used:
            continue
        n += 1
        construct = astx.sig(f)
        chk.instance("COMPOUND")
        wrong = [(o, x) for o, x in used if o not in allowed[op]]
        # the post-increment forms copy *this and then apply the pre-form: `++(*this)` inside operator++(int) is its own family
        chk.obligation("COMPOUND", construct, not wrong, evaluations=len(used))
        for o, x in wrong[:1]:
            chk.violation("COMPOUND", construct, "wrong-operator", "%s: operator%s applies `%s` (`%s`)" % (astx.loc(f, x), op, o, astx.show(x, 40)),
                          {"where": astx.loc(f)})
    # the free binary operators: operator+ adds, operator- subtracts, ... (between tick counts or delegating to `+=` / a sibling)
    bin_allowed = {"+": {"+", "+="}, "-": {"-", "-="}, "*": {"*", "*="}, "/": {"/", "/="}, "%": {"%", "%="}}
    for f in db.funcs:
        if f.get("body") is None or f.get("kind") != "function" or not f["n"].startswith("operator") or len(f["params"]) != 2:
            continue
        if not (f["file"].startswith("_chrono/duration.hpp") or f["file"].startswith("_chrono/time_point.hpp")):
            continue
        op = f["n"][len("operator"):]
        if op not in bin_allowed:
            continue
        used = [(x["op"], x) for x in astx.all_exprs(f) if x.get("k") == "bin" and x["op"] in family]
        if not used:
            continue
        n += 1
        construct = astx.sig(f)
        chk.instance("COMPOUND")
        wrong = [(o, x) for o, x in used if o not in bin_allowed[op]]
        chk.obligation("COMPOUND", construct, not wrong, evaluations=len(used))
        for o, x in wrong[:1]:
            chk.violation("COMPOUND", construct, "wrong-operator", "%s: operator%s applies `%s` (`%s`)" % (astx.loc(f, x), op, o, astx.show(x, 40)),
                          {"where": astx.loc(f)})
    if n < 6:
        chk.analysis_broken("COMPOUND: only %d compound / binary arithmetic operators of duration / time_point found (floor 6)" % n)


FIXED_ARITH = re.compile(r"^(const\s+)?((etl::)?(u?intmax_t|u?int(_least|_fast)?(8|16|32|64)_t|ptrdiff_t|size_t|ssize_t)|"
                         r"((un)?signed\s+)?(char|short|int|long|long long|long int|long long int)(\s+(un)?signed)?|unsigned|signed|"
                         r"float|double|long double)$")


def repcast_rule(chk, db):
    """REPCAST: the generic duration / time_point templates compute in the representation types they are given (Rep,
    common_type_t<...>, CR, To::rep): a tick count (`x.count()`) cast to a *fixed* builtin arithmetic type truncates a
    floating-point representation and narrows a wide one. Every explicit cast in those templates whose operand mentions
    count() has a destination type that depends on a template parameter or names a rep typedef."""
    files = ("_chrono/duration.hpp", "_chrono/duration_cast.hpp", "_chrono/time_point.hpp", "_chrono/time_point_cast.hpp",
             "_chrono/floor.hpp", "_chrono/ceil.hpp", "_chrono/round.hpp", "_chrono/abs.hpp")
    n = 0
    for f in db.funcs:
        if f.get("body") is None or f["file"] not in files:
            continue
        tps = [tp["n"] for tp in (f.get("tparams") or []) if tp.get("k") == "type"]
        rec = db.record(f.get("record")) if f.get("record") else None
        if rec is not None:
            tps += [tp["n"] for tp in (rec.get("tparams") or []) if tp.get("k") == "type"]
        if not tps:
            continue
        for x in astx.all_exprs(f, into_lambdas=True):
            if x.get("k") not in ("cast", "construct"):
                continue
            ty = (x.get("ty") or "").strip()
            inner = [x.get("e")] if x.get("k") == "cast" else list(x.get("a") or [])
            rep_params = set(p0["n"] for p0 in f["params"] if re.sub(r"\b(const|typename)\b|[&\s]", "", p0.get("ty") or "") in ("rep", "Rep", "duration::rep"))

            def is_ticks(y):
                # x.count(), the stored tick count itself, or a parameter declared with the representation type
                return (y.get("k") == "call" and astx.callee(y)[0] == "count" and not y["a"]) or \
                    (y.get("k") == "mem" and y.get("dk") == "field" and y.get("n") in ("_rep", "_count", "_ticks", "_d")) or \
                    (y.get("k") == "ref" and y.get("d") == "param" and y.get("n") in rep_params)
            if not any(is_ticks(y) for i in inner if i is not None for y in astx.walk_expr(i)):
                continue
            n += 1
            label = "%s :: `%s`" % (astx.sig(f), astx.show(x, 60))
            chk.instance("REPCAST")
            fixed = bool(FIXED_ARITH.match(ty))
            chk.obligation("REPCAST", label, not fixed)
            if fixed:
                chk.violation("REPCAST", label, "count-cast-to-fixed-type",
                              "%s: a tick count is converted to the fixed type `%s`; the representation is a template argument "
                              "(floating-point and wider integer reps are valid), so the arithmetic belongs in the common rep"
                              % (astx.loc(f, x), ty), {"where": astx.loc(f)})
    if n < 3:
        chk.analysis_broken("REPCAST: only %d casts of tick counts found in the duration templates (floor 3)" % n)


def abs_rule(chk, db):
    """ABS: chrono::abs(d) is `d` for d >= zero and `zero - d` (or `-d`) for d < zero. The returned expression is evaluated for
    the three orderings of d against zero()."""
    fs = [f for f in db.by_q.get("etl::chrono::abs", []) if f.get("body") is not None and len(f["params"]) == 1]
    if not fs:
        chk.analysis_broken("ABS: etl::chrono::abs no longer exists")
        return
    f = fs[0]
    d = f["params"][0]["n"]
    construct = astx.sig(f)
    chk.instance("ABS")

    class NM(Exception):
        pass

    def is_zero(e):
        e = astx.strip_casts(e)
        return e is not None and ((e.get("k") == "call" and astx.callee(e)[0] == "zero" and not e["a"]) or
                                  (e.get("k") in ("construct", "initlist") and not [a for a in e.get("a", []) if a is not None and (astx.int_value(astx.strip_casts(a)) != 0)]))

    def is_d(e):
        e = astx.strip_casts(e)
        return e is not None and e.get("k") == "ref" and e.get("n") == d

    def truth(c, o):
        c = astx.strip_casts(c)
        while c is not None and c.get("k") == "paren":
            c = astx.strip_casts(c.get("e"))
        if c is None:
            raise NM()
        if c.get("k") == "un" and c["op"] == "!":
            return not truth(c["e"], o)
        if c.get("k") == "bin" and c["op"] in ("<", "<=", ">", ">=", "==", "!="):
            l, r, op = c["l"], c["r"], c["op"]
            if is_zero(l) and is_d(r):
                l, r, op = r, l, {"<": ">", "<=": ">=", ">": "<", ">=": "<=", "==": "==", "!=": "!="}[op]
            if is_d(l) and is_zero(r):
                return {"<": o == "<", "<=": o in "<=", ">": o == ">", ">=": o in ">=", "==": o == "=", "!=": o != "="}[op]
        raise NM()

    def value(e, o):
        """'d' | 'neg'"""
        e = astx.strip_casts(e)
        while e is not None and e.get("k") == "paren":
            e = astx.strip_casts(e.get("e"))
        if e is None:
            raise NM()
        if is_d(e):
            return "d"
        if e.get("k") == "un" and e["op"] == "-" and is_d(e["e"]):
            return "neg"
        if e.get("k") == "bin" and e["op"] == "-" and is_zero(e["l"]) and is_d(e["r"]):
            return "neg"
        if e.get("k") == "cond":
            return value(e["t"] if truth(e["c"], o) else e["f"], o)
        raise NM()
    from ..rules import sets as SP
    bad = unknown = None
    for o in "<=>":
        got = None
        try:
            for p in SP.paths(f["body"]):
                ok_path = True
                for ev in p:
                    if ev[0] == "cond" and truth(ev[1], o) != ev[2]:
                        ok_path = False
                        break
                    if ev[0] == "ret" and ok_path:
                        got = value(ev[1], o)
                if ok_path and got is not None:
                    break
        except NM:
            unknown = True
            break
        want = "neg" if o == "<" else "d"
        if got is None:
            unknown = True
            break
        # -0 == 0: for d == zero both spellings are the same value
        if got != want and o != "=" and bad is None:
            bad = (o, got)
    chk.obligation("ABS", construct, None if unknown else bad is None, evaluations=3)
    if unknown:
        chk.unknown_instance("ABS", construct, "the result is not a selection between d and zero() - d on a comparison of d with zero()")
    elif bad:
        chk.violation("ABS", construct, "wrong-branch", "%s: for d %s zero() abs returns %s" % (astx.loc(f), bad[0], "zero() - d" if bad[1] == "neg" else "d"),
                      {"where": astx.loc(f)})


def units_rule(chk, db):
    """UNITS: tick counts of two different duration types are never compared, added, subtracted or divided with each other.
    Every expression gets the type tag of the duration it measures: a parameter its declared duration / time_point type,
    `x.time_since_epoch()` the tag of x, `CD(x)` / `duration_cast<CD>(x)` / a local declared `CD` the tag CD, `x.count()` a
    number in the unit of x. A binary operator on two numbers with different known tags mixes units (`lhs.count() ==
    rhs.count()` with lhs in seconds and rhs in minutes)."""
    n = 0
    ops = ("==", "!=", "<", "<=", ">", ">=", "+", "-", "%", "/", "<=>")
    for f in db.funcs:
        if not f["file"].startswith("_chrono/") or f.get("body") is None:
            continue
        ptag = {}
        for p0 in f["params"]:
            t = p0["ty"].replace("const ", "").replace("&", "").strip()
            if p0.get("n") and ("duration" in t or "time_point" in t or t in ("Duration", "ToDuration", "Dur", "Dur1", "Dur2")):
                ptag[p0["n"]] = t
        if not ptag:
            continue
        local = {}
        for st in astx.walk_stmts(f.get("body")):
            if st.get("k") == "decl":
                for v in st["vars"]:
                    if "other" not in v and v.get("init") is not None:
                        local[v["n"]] = v

        def tag(e, depth=0):
            """('obj'|'num', tag) or None"""
            e0 = e
            while e0 is not None and e0.get("k") == "paren":
                e0 = e0.get("e")
            if e0 is None or depth > 6:
                return None
            k = e0.get("k")
            if k in ("cast", "construct") and e0.get("ty"):
                ty = e0["ty"].replace("const ", "").replace("&", "").strip()
                inner = e0.get("e") if k == "cast" else (e0["a"][0] if len(e0.get("a", [])) == 1 else None)
                it = tag(inner, depth + 1) if inner is not None else None
                if it and it[0] == "num":
                    return ("num", it[1]) if not any(w in ty for w in ("duration", "Duration", "Dur", "CD", "CT")) else ("obj", ty)
                if it and it[0] == "obj":
                    return ("obj", ty)
                return None
            if k == "ref":
                nme = e0["n"]
                if nme in ptag:
                    return ("obj", ptag[nme])
                if nme in local:
                    v = local[nme]
                    ty = (v.get("ty") or "").replace("const ", "").replace("&", "").strip()
                    it = tag(v["init"], depth + 1)
                    if it and it[0] == "obj" and ty and "auto" not in ty:
                        return ("obj", ty)
                    return it
                return None
            if k == "call":
                nm, q, recv, kind = astx.callee(e0)
                if kind == "member" and nm == "count" and not e0["a"]:
                    it = tag(recv, depth + 1)
                    return ("num", it[1]) if it and it[0] == "obj" else None
                if kind == "member" and nm == "time_since_epoch" and not e0["a"]:
                    it = tag(recv, depth + 1)
                    return ("obj", it[1]) if it and it[0] == "obj" else None
                if nm in ("duration_cast", "time_point_cast", "floor", "ceil", "round") and len(e0["a"]) == 1:
                    ta = (e0["f"].get("targs") or "").strip()
                    it = tag(e0["a"][0], depth + 1)
                    if ta and it:
                        return ("obj", ta)
                    return None
            return None
        sites = []
        for x in astx.all_exprs(f):
            if x.get("k") == "bin" and x["op"] in ops:
                a, b = tag(x["l"]), tag(x["r"])
                if a and b and a[0] == "num" and b[0] == "num":
                    sites.append((x, a[1], b[1]))
        if not sites:
            continue
        n += 1
        construct = astx.sig(f)
        chk.instance("UNITS")
        bad = [t for t in sites if t[1].replace(" ", "") != t[2].replace(" ", "")]
        chk.obligation("UNITS", construct, not bad, evaluations=len(sites))
        for x, ta, tb in bad[:1]:
            chk.violation("UNITS", construct, "mixed-units", "%s: `%s` combines a tick count in units of `%s` with one in units of `%s`" % (
                astx.loc(f, x), astx.show(x, 70), ta, tb), {"where": astx.loc(f)})
    if n < 3:
        chk.analysis_broken("UNITS: only %d chrono functions that combine two tick counts found (floor 3)" % n)


META_EXTRA = 'CAST / CONV (conversion arithmetic skeleton count*num/den in the common type; kernel selection); ROUND (floor/ceil/round evaluated as decision procedures, sign-robust parity); COMMON (tick counts read only from operands converted to the common duration); UNITS (type-tagged tick counts: no operator combines counts of two different duration types); COMPOUND (compound assignment and increment operators apply their own arithmetic operator); REL (duration / time_point relational operators evaluated over the ordering of the compared subjects); PARAM.'
META = (META[0] + " " + META_EXTRA, META[1])
META = (META[0] + ' ABS (chrono::abs per ordering of d against zero()).', META[1])

META = (META[0] + ' REPCAST (the duration templates never convert a tick count to a fixed builtin arithmetic type).', META[1])


META = (META[0] + ' DEPNAME (a member named on an object of a chrono class template inside a template - not looked up until instantiation - is declared by that template or a base).', META[1])


META = (META[0] + ' UNCOND (a compound assignment operator applies its arithmetic on every path; no early return skips it).', META[1])


def run(chk, tier):
    quick = tier == "quick"
    db = D.load("checks")
    from ..rules import params as _PR
    _PR.check(chk, db, ['_chrono/duration', '_chrono/floor', '_chrono/ceil', '_chrono/round', '_chrono/abs', '_chrono/time_point'], floor=30)
    cast_rule(chk, db)
    conv_rule(chk, db)
    common_rule(chk, db)
    units_rule(chk, db)
    compound_rule(chk, db)
    abs_rule(chk, db)
    repcast_rule(chk, db)
    from ..rules import extra11 as _X11
    if _X11.check(chk, db, ['_chrono/']) < 10:      # DEPNAME
        chk.analysis_broken('DEPNAME: fewer than 10 member accesses on objects of a chrono class template found (floor 10)')
    from ..rules import extra12 as _X12
    if _X12.unconditional_area(chk, db, ['_chrono/duration.hpp', '_chrono/time_point.hpp']) < 8:      # UNCOND
        chk.unknown_instance('UNCOND', 'etl::chrono::duration', 'fewer than 8 compound operators found')
    from ..rules import rel as _REL
    nrel = _REL.check(chk, db, ["_chrono/time_point.hpp", "_chrono/duration.hpp"])      # REL: the relational operators over the ordering domain
    if chk.rule_instances.get("REL", 0) < 8:
        chk.analysis_broken("REL: only %d relational operators of duration / time_point found (floor 8)" % chk.rule_instances.get("REL", 0))
    round_rule(chk, db)
    tus, info = gen.generate(quick)
    res = wit.compile_many(tus, compiler="g++", jobs=16)
    total = 0
    for tu in tus:
        results, unattributed = res[tu.name]
        wit.judge(chk, "W-TYPES", tu, results, unattributed)
        chk.instance("W-TYPES:" + tu.name, len(tu.obl))
        total += len(tu.obl)
        for line, ob in list(tu.obl.items())[5:6]:
            chk.sample({"tu": tu.name, "obligation": ob["label"], "code": ob["code"][:300]})
    chk.extra.update(info)
    chk.extra["units"] = len(tus)
    if total < (3000 if quick else 20000):
        chk.analysis_broken("only %d chrono type obligations generated" % total)
    chk.assumptions += [
        "values of casts and rounding (ties-to-even, negative counts, overflow) are run-time values and are not decided "
        "by the type-level clause",
        "g++ 12 / libstdc++ 12 <chrono> is the oracle for result types",
    ]
