"""C08 - string_view searches and comparisons equal std::string_view for all arguments (clauses)."""
import json

from .. import astx
from .. import db as D
from .. import prog as P
from .. import terms as T
from .. import spec as S
from ..rules import bound as B
from ..rules import rel, sig, reach
from . import c05
from witness import winst

META = ("SIG (default arguments/overloads vs libstdc++'s std::basic_string_view declarations), BOUND (every character read "
        "through the view's pointer has index < size(); every sub-view / copied range [pos, pos+n) formed by substr, copy "
        "and compare lies inside [0, size()] - proved over the finite model space under the documented preconditions), "
        "CMP3 (compare()'s three-way result over the (prefix order, size order) domain), REL (13 relational operators), "
        "W-INST (all members instantiate for 5 character types)",
        ["clang 14 parser/sema (tetl-ast)", "libstdc++ 12 declarations (SIG oracle)", "bounded-model evaluator",
         "specs/contracts.json preconditions", "g++ 12 (W-INST)"])
VIEW = "etl::basic_string_view"


def view_hook(builder, fr, out, node, stmt, sites):
    """sub-views {_begin + pos, n} and traits copy/compare(data() + pos, n) must stay inside [0, size()]"""
    if fr.ctx.this_name != "this":
        return
    off = n = what = None
    cargs = node.get("a", []) if node.get("k") == "construct" else []
    if len(cargs) == 1 and cargs[0] is not None and cargs[0].get("k") == "initlist":
        cargs = cargs[0]["a"]
    if node.get("k") == "construct" and "basic_string_view" in node.get("ty", "") and len(cargs) == 2:
        node = dict(node, a=cargs)
        a0 = astx.strip_casts(node["a"][0])
        if a0.get("k") == "bin" and a0["op"] == "+":
            base = astx.strip_casts(a0["l"])
            if base.get("k") == "mem" and astx.is_this(base.get("b")) and base.get("dk") == "field":
                off, n, what = a0["r"], node["a"][1], "sub-view"
    elif node.get("k") == "call":
        nm, q, recv, kind = astx.callee(node)
        # (pointer arguments, count argument) of the char_traits primitives that walk a counted range
        shape = {"copy": ((0, 1), 2), "compare": ((0, 1), 2), "move": ((0, 1), 2), "find": ((0,), 1), "assign": ((0,), 1)}.get(nm)
        if shape is not None and len(node["a"]) == 3 and (q is None or "traits" in (q or "") or "Traits" in astx.show(node["f"], 60)
                                                          or nm in ("copy", "compare", "move")):
            for src in [node["a"][i] for i in shape[0]]:
                s0 = astx.strip_casts(src)
                if s0.get("k") == "bin" and s0["op"] == "+":
                    b0 = astx.strip_casts(s0["l"])
                    if b0.get("k") == "call" and astx.callee(b0)[0] == "data" and astx.is_this(astx.callee(b0)[2]):
                        off, n, what = s0["r"], node["a"][shape[1]], "range read by traits::" + nm
                elif s0.get("k") == "call" and astx.callee(s0)[0] == "data" and astx.is_this(astx.callee(s0)[2]) and nm in ("find", "assign"):
                    off, n, what = {"k": "int", "v": "0", "ty": "int"}, node["a"][shape[1]], "range read by traits::" + nm
    if node.get("k") == "bin" and node["op"] == "+":
        # pointer formation: data() + e / _begin + e / begin() + e must not go beyond one past the last character
        b0 = astx.strip_casts(node["l"])
        isbase = False
        if b0 is not None and b0.get("k") == "call" and astx.callee(b0)[0] in ("data", "begin", "cbegin") and astx.is_this(astx.callee(b0)[2]):
            isbase = True
        if b0 is not None and b0.get("k") == "mem" and astx.is_this(b0.get("b")) and b0.get("dk") == "field" and b0["n"] == "_begin":
            isbase = True
        if not isbase and b0 is not None and b0.get("k") == "ref" and b0.get("d") == "local":
            # a local pointer that was itself formed from data() / begin(): `first + n` with `first = data() + pos`
            try:
                pt = P.simplify(builder.term(node, fr))
            except Exception:
                pt = None
            def _offset(t):
                if not isinstance(t, tuple):
                    return t
                if t[0] == "p" and len(t) > 2:
                    return t[1]
                if t[0] in ("c", "v", "unk"):
                    return t
                return tuple([t[0]] + [_offset(x) if isinstance(x, tuple) else x for x in t[1:]])
            if pt is not None and isinstance(pt, tuple) and P.pos_object(pt) == "this":
                ot = P.simplify(_offset(pt))
                t = ("cmp", "<=", ot, T.size_of("this", fr.ctx))
                info = builder.info(fr, stmt, what="pointer formed at %s + %s" % (astx.show(b0, 20), astx.show(node["r"], 30)), buffer="view",
                                    access="form", index=T.show(ot), bound="size() (one past the end)")
                info["site_id"] = "%s:%s" % (" > ".join(info.get("callpath") or [info["func"]]), info["what"])
                sites.append(B.Site(info, t))
                out.append(("oblige", t, dict(info, site=len(sites) - 1)))
            return
        if not isbase:
            return
        ot = P.simplify(builder.term(node["r"], fr))
        t = ("cmp", "<=", ot, T.size_of("this", fr.ctx))
        info = builder.info(fr, stmt, what="pointer formed at %s + %s" % (astx.show(b0, 20), astx.show(node["r"], 30)), buffer="view",
                            access="form", index=T.show(ot), bound="size() (one past the end)")
        info["site_id"] = "%s:%s" % (" > ".join(info.get("callpath") or [info["func"]]), info["what"])
        sites.append(B.Site(info, t))
        out.append(("oblige", t, dict(info, site=len(sites) - 1)))
        return
    if off is None:
        return
    ot, nt = P.simplify(builder.term(off, fr)), P.simplify(builder.term(n, fr))
    # evaluated over unbounded integers: pos + n <= size
    t = ("and", ("cmp", "<=", ot, T.size_of("this", fr.ctx)),
         ("cmp", "<=", nt, ("-", T.size_of("this", fr.ctx), ot)))
    info = builder.info(fr, stmt, what="%s [%s, +%s)" % (what, astx.show(off, 30), astx.show(n, 30)), buffer="view", access="range",
                        index=T.show(ot) + " + " + T.show(nt), bound="size()")
    info["site_id"] = "%s:%s" % (" > ".join(info.get("callpath") or [info["func"]]), info["what"])
    sites.append(B.Site(info, t))
    out.append(("oblige", t, dict(info, site=len(sites) - 1)))


def compare3(chk, db):
    """CMP3: compare(v) returns sign(prefix order) if the common prefix differs, else sign(size order)."""
    fs = [f for f in db.by_q.get(VIEW + "::compare", []) if len(f["params"]) == 1 and "basic_string_view" in f["params"][0]["ty"]]
    if not fs:
        chk.analysis_broken("CMP3: basic_string_view::compare(basic_string_view) no longer exists")
        return
    compare3_of(chk, fs[0])


def compare3_of(chk, f):
    """evaluate one whole-string compare member over the nine (prefix order, size order) worlds"""
    other = f["params"][0]["n"]
    res_vars = set()

    def ev(e, w):
        e = astx.strip_casts(e)
        k = e.get("k")
        if k == "int":
            return int(e["v"])
        if k == "un" and e["op"] == "-":
            return -ev(e["e"], w)
        if k == "ref" and e["n"] in res_vars:
            return w["prefix"]
        if k == "call" and astx.callee(e)[0] == "compare" and len(e["a"]) == 3:
            return w["prefix"]      # traits compare over the common prefix (its length is BOUND's business)
        if k == "cond":
            return ev(e["t"], w) if ev(e["c"], w) else ev(e["f"], w)
        if k == "bin" and e["op"] in ("&&", "||"):
            a = ev(e["l"], w)
            return (a and ev(e["r"], w)) if e["op"] == "&&" else (a or ev(e["r"], w))
        if k == "un" and e["op"] == "!":
            return not ev(e["e"], w)
        if k == "bin" and e["op"] in ("<", ">", "==", "!=", "<=", ">="):
            def side(x):
                x = astx.strip_casts(x)
                if x.get("k") == "call" and astx.callee(x)[0] in ("size", "length"):
                    recv = astx.callee(x)[2]
                    return ("size", "L" if astx.is_this(recv) else "R")
                return ("val", ev(x, w))
            a, b = side(e["l"]), side(e["r"])
            if a[0] == "size" and b[0] == "size":
                o = w["size"] if a[1] == "L" else -w["size"]
                av, bv = o, 0
            else:
                av, bv = a[1], b[1]
            return {"<": av < bv, ">": av > bv, "==": av == bv, "!=": av != bv, "<=": av <= bv, ">=": av >= bv}[e["op"]]
        raise ValueError("not modelled: " + astx.show(e, 40))

    def run(s, w):
        k = s.get("k")
        if k == "seq":
            for c in s["s"]:
                r = run(c, w)
                if r is not None:
                    return r
            return None
        if k == "decl":
            for v in s["vars"]:
                if "other" in v or v.get("init") is None:
                    continue
                if any(x.get("k") == "call" and astx.callee(x)[0] == "compare" for x in astx.walk_expr(v["init"])):
                    res_vars.add(v["n"])
            return None
        if k == "if":
            c = ev(s["c"], w)
            br = s.get("then") if c else s.get("else")
            return run(br, w) if br else None
        if k == "return":
            return ev(s["e"], w)
        raise ValueError("statement " + str(k))
    bad = None
    n = 0
    try:
        for prefix in (-1, 0, 1):
            for size in (-1, 0, 1):
                n += 1
                got = run(f["body"], {"prefix": prefix, "size": size})
                exp = prefix if prefix != 0 else size
                sg = (got > 0) - (got < 0) if got is not None else None
                if sg != exp and bad is None:
                    bad = (prefix, size, got, exp)
    except ValueError as ex:
        chk.unknown_instance("CMP3", astx.sig(f), str(ex))
        return
    chk.instance("CMP3")
    chk.obligation("CMP3", astx.sig(f), bad is None, evaluations=n)
    if bad:
        chk.violation("CMP3", astx.sig(f), "wrong-sign", "%s: compare() returns %s for prefix order %+d, size order %+d (std: sign %+d)" % (
            astx.loc(f), bad[2], bad[0], bad[1], bad[3]), {"where": astx.loc(f)})
    else:
        chk.sample({"rule": "CMP3", "function": astx.sig(f), "worlds": n})


NUL_SENSITIVE = {"strlen", "strcmp", "strncmp", "strchr", "strrchr", "strstr", "strspn", "strcspn", "strpbrk", "strcpy", "strncpy",
                 "strcat", "strncat", "wcslen", "wcscmp", "wcsncmp", "wcschr", "str_length", "strcoll"}


def nul_sink(q):
    return q.split("::")[-1] in NUL_SENSITIVE


def takes_c_string(f):
    """an overload that receives a null-terminated string: a character pointer that is not followed by a length"""
    ps = f["params"]
    for i, p0 in enumerate(ps):
        ty = p0["ty"].replace(" ", "")
        if ty in ("constChar*", "const_pointer", "etl::basic_string_view::const_pointer", "etl::basic_inplace_string::const_pointer",
                  "constchar_type*") or ty.endswith("const_pointer"):
            rest = [q["n"] for q in ps[i + 1:]]
            if not any(n in ("count", "n", "len", "length", "size", "count2") for n in rest):
                return True
    return False


def nulfree_rule(chk, db, record, floor):
    """NULFREE: counted operations never reach a routine that stops at a null character; only the overloads that receive a
    null-terminated string may measure it, and only through traits_type::length."""
    n = 0
    length_q = reach.TRAITS_RECORD + "::length"
    entries = [f for f in db.funcs if f.get("record") == record and f.get("body") is not None and f.get("access", "public") == "public"]
    traits = [f for f in db.funcs if f.get("record") == reach.TRAITS_RECORD and f.get("body") is not None and f["n"] != "length"]
    for f in entries + traits:      # char_traits is the backend of the view and of the string alike
        construct = astx.sig(f)
        cstr = takes_c_string(f) and f.get("record") == record
        chk.instance("NULFREE")
        n += 1
        # the overloads for null-terminated strings may reach length(); nothing may reach the C routines otherwise
        paths = reach.reach(db, f, lambda q: nul_sink(q) or q == length_q, stop=lambda q: False)
        bad = []
        for pth in paths:
            sink = pth[-1]
            if sink == length_q:
                if cstr:
                    continue
                # a counted entry that delegates to an overload for null-terminated strings measures counted data with length():
                # characters after an embedded null are lost
                bad.append(pth)
            else:
                # the C routine below traits_type::length is length's implementation
                if len(pth) >= 2 and pth[-2].startswith(length_q + "("):
                    if cstr:
                        continue
                bad.append(pth)
        chk.obligation("NULFREE", construct, not bad, evaluations=max(1, len(paths)))
        for pth in bad[:2]:
            chk.violation("NULFREE", construct, "nul-sensitive", "%s: a counted operation reaches `%s`, which stops at the first null character: %s" % (
                astx.loc(f), pth[-1], " -> ".join(x.split("(")[0] for x in pth)), {"where": astx.loc(f), "path": list(pth)})
    if n < floor:
        chk.analysis_broken("NULFREE: only %d entry points of %s (floor %d)" % (n, record, floor))


def _sig_takes_c_string(db, sig_text):
    q = sig_text.split("(")[0]
    for g in db.by_q.get(q, []):
        if astx.sig(g) == sig_text:
            return takes_c_string(g)
    return False


def traits_witness(chk):
    """W-TRAITS: etl::char_traits<C> agrees with std::char_traits<C> on its constexpr members at the boundary characters
    (0, 1, 0x7f, 0x80, 0xff / max): lt/eq decide every comparison and search of the views, and std orders `char` as unsigned
    char. Each obligation is a static_assert compiled by g++ -fsyntax-only."""
    from witness import wit
    pro = "#include <etl/string.hpp>\n#include <etl/string_view.hpp>\n#include <string>\n#include <string_view>\n"
    tu = wit.TU("c08_traits", pro)
    types = {"char": ["'\\0'", "'\\x01'", "'a'", "'\\x7f'", "'\\x80'", "'\\xff'"],
             "wchar_t": ["L'\\0'", "L'a'", "L'\\x7f'", "L'\\x80'", "wchar_t(-1)"],
             "char8_t": ["u8'\\0'", "u8'a'", "u8'\\x7f'", "char8_t(0x80)", "char8_t(0xff)"],
             "char16_t": ["u'\\0'", "u'a'", "char16_t(0x80)", "char16_t(0xfffe)"],
             "char32_t": ["U'\\0'", "U'a'", "char32_t(0x80)", "char32_t(0xffffffff)"]}
    for ty, vals in types.items():
        E, S = "etl::char_traits<%s>" % ty, "std::char_traits<%s>" % ty
        for a in vals:
            tu.add("static_assert(%s::to_int_type(%s) == %s::to_int_type(%s));" % (E, a, S, a), "char_traits<%s>::to_int_type(%s)" % (ty, a))
            tu.add("static_assert(%s::not_eof(%s::to_int_type(%s)) == %s::not_eof(%s::to_int_type(%s)));" % (E, E, a, S, S, a),
                   "char_traits<%s>::not_eof(%s)" % (ty, a))
            for b in vals:
                tu.add("static_assert(%s::lt(%s, %s) == %s::lt(%s, %s));" % (E, a, b, S, a, b), "char_traits<%s>::lt(%s, %s)" % (ty, a, b))
                tu.add("static_assert(%s::eq(%s, %s) == %s::eq(%s, %s));" % (E, a, b, S, a, b), "char_traits<%s>::eq(%s, %s)" % (ty, a, b))
                tu.add("static_assert([] { constexpr %s x[1] = {%s}; constexpr %s y[1] = {%s}; auto sg = [](int v) { return (v > 0) - (v < 0); }; "
                       "return sg(%s::compare(x, y, 1)) == sg(%s::compare(x, y, 1)); }());" % (ty, a, ty, b, E, S),
                       "char_traits<%s>::compare({%s}, {%s}, 1)" % (ty, a, b))
                tu.add("static_assert([] { constexpr %s x[1] = {%s}; constexpr %s y[1] = {%s}; auto sg = [](int v) { return (v > 0) - (v < 0); }; "
                       "return sg(etl::basic_string_view<%s>(x, 1).compare(etl::basic_string_view<%s>(y, 1))) == "
                       "sg(std::basic_string_view<%s>(x, 1).compare(std::basic_string_view<%s>(y, 1))); }());" % (ty, a, ty, b, ty, ty, ty, ty),
                       "basic_string_view<%s>{%s}.compare({%s})" % (ty, a, b))
        tu.add("static_assert(%s::eof() == %s::eof());" % (E, S), "char_traits<%s>::eof()" % ty)
        tu.add("static_assert(std::is_same_v<%s::int_type, %s::int_type>);" % (E, S), "char_traits<%s>::int_type" % ty)
    res = wit.compile_many([tu])
    results, un = res[tu.name]
    wit.judge(chk, "W-TRAITS", tu, results, un)
    chk.instance("W-TRAITS", len(tu.obl))
    if len(tu.obl) < 400:
        chk.analysis_broken("W-TRAITS: only %d char_traits obligations" % len(tu.obl))


def exit_rule(chk, db, floor=6):
    """EXIT over the searches of basic_string_view and etl::strings (see rules/exits.py)"""
    from ..rules import exits
    n = 0
    for fam in exits.FAMILIES:
        for f in db.by_q.get(VIEW + "::" + fam, []):
            if f.get("body") is not None and f["params"] and "basic_string_view" in f["params"][0]["ty"]:
                pn = f["params"][1]["n"] if len(f["params"]) > 1 else "pos"
                n += exits.check_function(chk, db, f, fam, pn, "size(%s)" % f["params"][0]["n"], "size(this)")
            elif f.get("body") is not None and len(f["params"]) == 2 and f["params"][0]["ty"].replace("const ", "").strip() in ("Char", "CharT", "value_type"):
                # the single-character overloads that do their own scan: a needle of length 1
                if not (len(f["body"].get("s") or []) == 1 and f["body"]["s"][0].get("k") == "return"):
                    n += exits.check_function(chk, db, f, fam, f["params"][1]["n"], None, "size(this)")
            elif f.get("body") is not None and len(f["params"]) == 3 and "*" in f["params"][0]["ty"].replace("const_pointer", "*") \
                    and not (len(f["body"].get("s") or []) == 1 and f["body"]["s"][0].get("k") == "return"):
                # (pointer, pos, count) overloads that answer some cases themselves: the needle's length is `count`
                n += exits.check_function(chk, db, f, fam, f["params"][1]["n"], f["params"][2]["n"], "size(this)")
    for fam in ("find", "rfind"):
        for f in db.by_q.get("etl::strings::" + fam, []):
            if f.get("body") is not None and len(f["params"]) == 3 and "basic_string_view" in f["params"][1]["ty"]:
                n += exits.check_function(chk, db, f, fam, f["params"][2]["n"], "size(%s)" % f["params"][1]["n"], "size(%s)" % f["params"][0]["n"])
    if n < floor:
        chk.analysis_broken("EXIT: only %d early exits of the search functions found (floor %d)" % (n, floor))


META_EXTRA = 'NULFREE; EXIT; pointer-formation obligations and counting-loop reachability in BOUND; W-TRAITS (char_traits vs std::char_traits at boundary characters); PARAM.'
META = (META[0] + " " + META_EXTRA, META[1])
META = (META[0] + ' SIB; IT4i; RESUME (pattern searches, including etl::search / etl::find_end, move their candidate by one).', META[1])
META = (META[0] + " RWINDOW (rfind's prologue evaluated over (pos, n, size) models: the prefix handed to the backward scan); PTRCOUNT over char_traits.", META[1])
META = (META[0] + ' IDXLOOP; FWINDOW (forward pointer scans end at data() + size()).', META[1])

META = (META[0] + ' FIRSTREAD (every search that scans by itself is executed over (size, pos, needle length) models up to its first read of the view: position min(pos, size-1) for the backward searches, pos for the forward ones); BOUND covers traits find / assign ranges; WRAP (a position argument is bounded before anything is added to it).', META[1])

META = (META[0] + ' TRAITSORD (the ordering operations of the view order characters through Traits::compare / Traits::lt, never with the built-in `<` or a comparator-less ordering algorithm).', META[1])


META = (META[0] + ' CHARCAST (the generic char_traits convert a character to a fixed narrow type only under is_same_v<char_type, char>).', META[1])


META = (META[0] + ' EMPTYQ (all_of / none_of answer true and any_of false on an early return for the empty range).', META[1])


def run(chk, tier):
    db = D.load("checks")
    from ..rules import params as _PR
    _PR.check(chk, db, ['_string_view/', '_string/char_traits'], floor=40)
    from ..rules import iters as _ITX
    _ITX.reverse_index_area(chk, db, ['_string_view/', '_string/char_traits'])      # IT4i: downward index scans reach index 0
    _ITX.resume_area(chk, db, ['_string_view/', '_algorithm/find_end', '_algorithm/search'])      # RESUME: pattern searches try every candidate position
    _ITX.index_loop_area(chk, db, ['_string_view/'])      # IDXLOOP: index loops over the own elements stop before size()
    _ITX.counted_buffer_area(chk, db, ['_string/char_traits'], floor=3)      # PTRCOUNT: (pointer, count) buffers are indexed below count
    from ..rules import exits as _EX
    _EX.check_fwindow(chk, db)      # FWINDOW: forward pointer scans end at data() + size()
    _EX.pos_wrap_area(chk, db, ['_string_view/'])      # WRAP: position arguments are bounded before anything is added to them
    from ..rules import extra8 as _X8
    if _X8.traits_order_area(chk, db, ['_string_view/basic_string_view.hpp']) < 4:      # TRAITSORD
        chk.analysis_broken('TRAITSORD: fewer than 4 ordering operations of basic_string_view found (floor 4)')
    from ..rules import extra10 as _X10c
    _X10c.char_cast_area(chk, db, ('_string/char_traits.hpp',))      # CHARCAST (may match nothing: then the controls carry it)
    _X10c.char_cast_control(chk, D)
    from ..rules import extra12 as _X12
    if _X12.empty_quantifier_area(chk, db, ['_algorithm/none_of', '_algorithm/all_of', '_algorithm/any_of']) < 1:      # EMPTYQ: find_last_not_of rests on none_of
        chk.analysis_broken('EMPTYQ: none_of not found (floor 1)')
    if _EX.check_first_read(chk, db) < 4:      # FIRSTREAD: the first character a positional search looks at
        chk.analysis_broken("FIRSTREAD: fewer than 4 searches that scan by themselves (floor 4)")
    if _EX.check_rwindow(chk, db) < 1:      # both rfind members became pure delegations: nothing to judge here
        chk.unknown_instance('RWINDOW', 'etl::basic_string_view::rfind', 'no rfind member with a prologue of its own')
    from ..rules import sibs as _SB
    _SB.check(chk, db, ['_string_view/', '_string/char_traits'])      # SIB: cv/ref-qualified overloads of one member agree
    _SB.positive_control(chk)
    plain = D.load("plain")
    with open(c05.SPEC) as fh:
        table = json.load(fh)["entries"]
    sig.check(chk, db, VIEW, "std::basic_string_view", min_matched=50)
    n = rel.check(chk, db, ["_string_view/basic_string_view.hpp"])
    if n < 11:
        chk.analysis_broken("REL: only %d string_view operators modelled" % n)
    compare3(chk, db)
    nulfree_rule(chk, db, VIEW, 60)
    traits_witness(chk)
    exit_rule(chk, plain)
    # BOUND over every public member (plain configuration: bounds must hold without relying on a check firing)
    svf = [f for f in plain.funcs_of_record(VIEW) if f.get("kind") == "method" and f.get("access") == "public"]
    if len(svf) < 40:
        chk.analysis_broken("BOUND: only %d public members of basic_string_view" % len(svf))
    nsites = 0
    for f in svf:
        ent = None
        for e in table:
            try:
                if any(x is f for x in c05.select(plain, e)):
                    ent = e
            except Exception:
                pass
        assume = None
        if ent:
            try:
                assume = [S.parse(ent["req"], f, ctx=T.TermCtx(f, plain))]
            except Exception:
                assume = None
        sites, nm = B.decide(plain, f, {"this._begin": (lambda ctx: T.size_of("this", ctx), "_begin")}, assume=assume,
                             extra_hook=view_hook)
        for sid, s in sorted(sites.items()):
            construct = "%s :: %s" % (astx.sig(f), sid)
            nsites += 1
            chk.instance("BOUND")
            chk.obligation("BOUND", construct, True if s.verdict == "PROVED" else (None if s.verdict == "UNKNOWN" else False),
                           evaluations=max(1, s.reached))
            if s.verdict == "REFUTED":
                chk.violation("BOUND", construct, "out-of-bounds", "%s:%s: %s leaves the view: %s vs %s; witness %s" % (
                    s.info["file"], s.info["line"], s.info["what"], s.info["index"], s.info["bound"], s.witness),
                    {"where": "%s:%s" % (s.info["file"], s.info["line"]), "witness": s.witness})
            elif s.verdict == "UNKNOWN":
                chk.unknown_instance("BOUND", construct, s.witness or "")
            chk.sample({"site": construct, "verdict": s.verdict})
    if nsites < 15:
        chk.analysis_broken("BOUND: only %d access sites in basic_string_view (floor 15)" % nsites)
    winst.run_matrix(chk, "W-INST", "c08_inst", [x for x in winst.string_matrix(True) if "string_view" in x[0]], True)
    chk.assumptions += [
        "the positions returned by the searches are run-time values and are not decided",
        "reads inside algorithms and through moving pointers are not BOUND sites; loop states after the first iteration "
        "are over-approximated (UNKNOWN when no loop condition bounds the index, e.g. find's inner offset)",
    ]
