"""C13 - compile-time evaluation and run-time execution give the same answer (structural clause: DISPATCH)."""
import os
import re

from .. import astx
from .. import db as D

META = ("DISPATCH: census of every function whose behaviour can differ between constant evaluation and run time "
        "(is_constant_evaluated / if consteval / __builtin_*); for each dual-path function the run-time builtin and the "
        "constant-evaluation fallback must be the same mathematical function as the enclosing function (name stems), with "
        "the precision suffix that matches the type arm and the same argument list in the same order; the float/double/"
        "long double overloads of one cmath function route to the same implementation object. Functions outside the "
        "census execute the same abstract-machine code in both modes.",
        ["clang 14 parser/sema (tetl-ast) - sees the clang branch of compiler-conditional code; the raw-lexer census covers all branches"])

INFRA = {"__builtin_is_constant_evaluated", "__builtin_addressof", "__builtin_unreachable", "__builtin_coro_done",
         "__builtin_coro_resume", "__builtin_coro_destroy", "__builtin_assume_aligned", "__builtin_add_overflow",
         "__builtin_sub_overflow", "__builtin_mul_overflow", "__builtin_huge_val", "__builtin_huge_valf", "__builtin_huge_vall",
         "__builtin_nan", "__builtin_nanf", "__builtin_nanl", "__builtin_nans", "__builtin_nansf", "__builtin_nansl",
         "__builtin_FUNCTION", "__builtin_FILE", "__builtin_LINE", "__builtin_bit_cast", "__builtin_expect", "__builtin_trap",
         "__builtin_launder"}
ALIAS = {"bswap": "byteswap"}
# functions whose result is exactly specified (the property's scope for bit-identical agreement)
EXACT = {"floor", "ceil", "trunc", "round", "rint", "nearbyint", "lrint", "llrint", "lround", "llround", "copysign", "signbit",
         "isnan", "isinf", "isfinite", "fma", "fabs", "abs", "fmod", "remainder", "popcount", "byteswap", "strlen", "strcmp",
         "strncmp", "strchr", "memchr", "memcmp", "add_sat"}
SUFFIX = ("", "f", "l", "ll")
FLOOR = 40


def canon(name):
    n = name
    if n.startswith("__builtin_"):
        n = n[len("__builtin_"):]
    m = re.match(r"^(bswap)(16|32|64)$", n)
    if m:
        return ALIAS["bswap"], {"16": "16", "32": "32", "64": "64"}[m.group(2)]
    return n, None


def identity(f):
    if f["n"] == "operator()" and f.get("record"):
        base = f["record"].split("::")[-1]
    else:
        base = f["n"]
    base = re.sub(r"(_impl|_fallback|_ite)$", "", base)
    return base


def arm_suffix(conds, f):
    """expected precision suffix from the enclosing if-constexpr conditions (innermost first) or the parameter type"""
    for c in conds:
        t = astx.show(c, 200)
        if "long double" in t:
            return "l"
        if re.search(r"\bdouble\b", t):
            return ""
        if re.search(r"\bfloat\b", t):
            return "f"
        if "unsigned long long" in t or "uint64" in t:
            return "ll"
        if "unsigned long" in t:
            return "l"
        if "sizeof" in t and "unsigned int" in t or "uint32" in t:
            return ""
        if "uint16" in t or "unsigned short" in t:
            return "16"
    if f["params"]:
        ty = f["params"][0]["ty"].replace("const", "").strip()
        if ty == "float":
            return "f"
        if ty == "double":
            return ""
        if ty == "long double":
            return "l"
    return None


def builtin_sites(f):
    """[(call, enclosing constexpr conds, in_runtime_branch)]"""
    out = []

    def walk(s, conds, rt):
        if s is None:
            return
        k = s.get("k")
        for e in astx.stmt_exprs(s):
            for x in astx.walk_expr(e, into_lambdas=True):
                if x.get("k") == "call":
                    nm = astx.callee(x)[0] or ""
                    if nm.startswith("__builtin_") and nm not in INFRA:
                        out.append((x, list(conds), rt))
        if k == "if":
            c = s.get("c")
            ice = 0
            if s.get("consteval"):
                ice = 1 if not s.get("negated") else -1
            elif c is not None:
                neg, e = 1, c
                while e.get("k") == "un" and e["op"] == "!":
                    neg, e = -neg, e["e"]
                if e.get("k") == "call" and astx.callee(e)[0] in ("is_constant_evaluated", "__builtin_is_constant_evaluated"):
                    ice = neg
            if ice:
                walk(s.get("then"), conds, ice < 0)
                walk(s.get("else"), conds, ice > 0)
            else:
                inner = [c] + conds if s.get("constexpr") and c is not None else conds
                walk(s.get("then"), inner, rt)
                walk(s.get("else"), conds, rt)
            return
        for c in astx.sub_stmts(s):
            walk(c, conds, rt)
    walk(f["body"], [], None)
    return out


def has_ice(f):
    for x in astx.all_exprs(f):
        if x.get("k") == "call" and astx.callee(x)[0] in ("is_constant_evaluated", "__builtin_is_constant_evaluated"):
            return True
    for s in astx.walk_stmts(f["body"]):
        if s.get("k") == "if" and s.get("consteval"):
            return True
    return False


def param_args(call, f):
    names = [p["n"] for p in f["params"]]
    got = []
    for a in call["a"]:
        a0 = astx.strip_casts(a)
        while a0 is not None and a0.get("k") == "construct" and len(a0["a"]) == 1:
            a0 = astx.strip_casts(a0["a"][0])
        if a0 is not None and a0.get("k") == "ref" and a0["n"] in names:
            got.append(a0["n"])
        else:
            got.append(None)
    return names, got


def ice_of(s):
    """+1 `if (is_constant_evaluated())`, -1 negated form, 0 otherwise"""
    if s.get("k") != "if":
        return 0
    if s.get("consteval"):
        return 1 if not s.get("negated") else -1
    c = s.get("c")
    if c is None:
        return 0
    neg, e = 1, c
    while e.get("k") == "un" and e["op"] == "!":
        neg, e = -neg, e["e"]
    if e.get("k") == "call" and astx.callee(e)[0] in ("is_constant_evaluated", "__builtin_is_constant_evaluated"):
        return neg
    return 0


def always_returns(s):
    if s is None:
        return False
    k = s.get("k")
    if k == "return":
        return True
    if k == "seq":
        return any(always_returns(x) for x in s["s"])
    if k == "if":
        return always_returns(s.get("then")) and always_returns(s.get("else"))
    return False


def final_fallback(f):
    """the expression returned on the constant-evaluation path"""
    body = f["body"]["s"] if f["body"].get("k") == "seq" else []
    mode = "both"
    found = None
    for s in body:
        ice = ice_of(s)
        if ice > 0:
            # then-branch is the constant-evaluation path
            for x in astx.walk_stmts(s.get("then")):
                if x.get("k") == "return":
                    found = x.get("e")
            if always_returns(s.get("then")):
                mode = "rt"
            continue
        if ice < 0:
            if s.get("else"):
                for x in astx.walk_stmts(s.get("else")):
                    if x.get("k") == "return":
                        found = x.get("e")
            mode = "ct" if mode == "both" else mode
            continue
        if s.get("k") == "return" and mode in ("ct", "both") and found is None:
            found = s.get("e")
    return found


def lexer_census(root):
    """all preprocessor branches: files that mention a mode switch or a builtin"""
    files = {}
    pat = re.compile(r"is_constant_evaluated|__builtin_[a-z_0-9]+|if\s+consteval|if\s*!\s*consteval")
    for dp, dn, fn in os.walk(root):
        for name in fn:
            if name.endswith(".hpp"):
                p = os.path.join(dp, name)
                with open(p, errors="replace") as fh:
                    src = re.sub(r"//[^\n]*", "", fh.read())
                hits = set(pat.findall(src))
                if hits:
                    files[os.path.relpath(p, root)] = sorted(hits)
    return files


def fb_rule(chk, db):
    """FB: library-local constant-evaluation helpers of exactly specified functions, evaluated over the finite floating-point
    class domain of rules/floatdom.py against the function's closed form."""
    from ..rules import floatdom as FD
    n = 0
    for f in db.funcs:
        if not f["file"].startswith("_cmath/") or f.get("kind") != "function" or f.get("body") is None:
            continue
        if not f["n"].endswith("_fallback"):
            continue
        ident = f["n"][:-len("_fallback")]
        if ident not in EXACT:
            continue
        n += 1
        construct = astx.sig(f)
        chk.instance("FB")
        helpers = dict((g["n"], g) for g in db.funcs if g["file"].startswith("_cmath/") and g["n"].endswith("_fallback") and g.get("body"))
        gc = {}
        for g in db.funcs:
            if "/gcem/" in g["file"] and g.get("body") is not None:
                gc.setdefault(g["n"], []).append(g)
        wide = FD.REPS_WIDE if len(f["params"]) == 1 else None
        r = FD.check_helper(f, ident, int_return=ident in ("lrint", "llrint", "lround", "llround"), helpers=helpers, gcem=gc, reps=wide)
        chk.obligation("FB", construct, True if r[0] == "ok" else (False if r[0] == "bad" else None), evaluations=r[1] if r[0] == "ok" else 1)
        if r[0] == "bad":
            args, got, want = r[1]
            chk.violation("FB", construct, "helper-differs", "%s: in constant evaluation %s(%s) is computed by this helper as %r; %s is exactly %r "
                          "(the run-time path uses the builtin)" % (astx.loc(f), ident, ", ".join(repr(a) for a in args), got, ident, want),
                          {"where": astx.loc(f), "args": [repr(a) for a in args]})
        elif r[0] == "unknown":
            chk.unknown_instance("FB", construct, r[1])
    chk.extra["fallback_helpers_evaluated"] = n


def fbg_rule(chk, db):
    """FBG: a <cmath> function whose run-time path is the compiler builtin of an exactly specified function agrees with itself
    only if its constant-evaluation path computes that exact function. The function's own body is evaluated with
    `is_constant_evaluated()` true -- through the vendored constexpr implementation `detail::gcem::Y` and the helpers it calls
    (all inside include/etl/_3rd_party/gcem), from their source -- over the floating-point class domain: fractions on both
    sides of zero, ties, signed zeros, values below epsilon and denormals, integers at and above 2^52, values beyond the
    range of long long, infinities, NaN; the result is compared with the closed form of the builtin. An evaluation that
    converts an out-of-range value to an integer is not a constant expression."""
    from ..rules import floatdom as FD
    import math
    gc = {}
    for g in db.funcs:
        if "/gcem/" in g["file"] and g.get("body") is not None:
            gc.setdefault(g["n"], []).append(g)
    specs = dict(FD.SPECS)
    specs["round"] = (1, lambda x: x if (math.isinf(x) or math.isnan(x)) else math.copysign(
        float(math.floor(abs(x) + 0.5)) if abs(x) < 2.0 ** 52 else abs(x), x))
    helpers = dict((g["n"], g) for g in db.funcs if g["file"].startswith("_cmath/") and g.get("body") is not None
                   and (g["n"].endswith("_fallback") or g["n"].endswith("_impl")))
    n = 0
    seen = set()
    for f in db.funcs:
        if not f["file"].startswith("_cmath/") or f.get("body") is None or len(f["params"]) != 1:
            continue
        builtins = set()
        dual = False
        for x in astx.all_exprs(f, into_lambdas=True):
            if x.get("k") != "call":
                continue
            nm = astx.callee(x)[0] or ""
            if nm == "is_constant_evaluated":
                dual = True
            if nm.startswith("__builtin_"):
                b = nm[len("__builtin_"):]
                for suf in ("f", "l"):
                    if b.endswith(suf) and b[:-1] in specs:
                        b = b[:-1]
                builtins.add(b)
        cands = sorted(b for b in builtins if b in specs and specs[b][0] == 1)
        if not dual or len(cands) != 1:
            continue
        y = cands[0]
        key = (f["file"], f["n"], f.get("record"))
        if key in seen:
            continue
        seen.add(key)
        n += 1
        construct = "%s (constant evaluation against __builtin_%s)" % (astx.sig(f), y)
        chk.instance("FBG")
        bad, unknown, cnt = [], None, 0
        for a in FD.REPS_WIDE:
            try:
                want = specs[y][1](a)
            except (OverflowError, ValueError):
                continue
            tps = [tp["n"] for tp in (f.get("tparams") or [])]
            ret = (f.get("ret") or "").strip()
            int_tparams = [ret] if (y in ("lrint", "llrint", "lround", "llround") and ret in tps) else []
            try:
                got = FD.call(f, [a], True, int_tparams, helpers, gc)
                if isinstance(want, int) and not isinstance(want, bool) and isinstance(got, float) and got == int(got):
                    got = int(got)      # an integer result type: no signed zero
            except FD.NotConstant as u:
                got = "not a constant expression (%s)" % u
            except FD.Unmodelled as u:
                unknown = str(u)
                break
            cnt += 1
            if not FD.same(got, want):
                bad.append((a, got, want))
        if unknown:
            chk.obligation("FBG", construct, None)
            chk.unknown_instance("FBG", construct, unknown)
            continue
        chk.obligation("FBG", construct, not bad, evaluations=cnt)
        for a, got, want in bad:
            cls = ("below-epsilon" if 0 < abs(a) < 1e-10 else "beyond-long-long" if abs(a) >= 2.0 ** 63 else
                   "negative-fraction" if -1 < a < 0 else "other")
            chk.violation("FBG", "%s [%s]" % (construct, cls), "constexpr-differs", "%s: in constant evaluation %s(%r) is %s; the run-time "
                          "path (__builtin_%s) gives %r" % (astx.loc(f), y, a, got if isinstance(got, str) else repr(got), y, want),
                          {"where": astx.loc(f), "arg": repr(a)})
    chk.extra["dual_path_cmath_functions_evaluated"] = n
    if n < 1:
        chk.analysis_broken("FBG: no dual-path <cmath> function with an exactly specified builtin found (the rule lost its subject)")


META_EXTRA = 'FB (library-local constant-evaluation helpers of exactly specified functions, evaluated over a finite floating-point class domain against the closed form); FBG (the vendored gcem implementation that constant evaluation uses where the run-time path is a builtin, evaluated from its own source over the same domain widened by tiny, huge and non-finite classes); SHIFT (shift counts below the promoted width of the left operand, symbolic type width).'
META = (META[0] + " " + META_EXTRA, META[1])
META = (META[0] + ' RAWDIFF (integer midpoint combines its arguments only in the unsigned type).', META[1])
META = (META[0] + ' NEGMIN (no negation of a possible numeric_limits::min(): not a constant expression); NZB (classification builtins that only promise a non-zero result are used in boolean context only, because the constant folder and the run-time expansion return different non-zero values); ALIASMODE (a pointer-order test between two pointer parameters - the overlap question - is asked in both evaluation modes or in neither).', META[1])

META = (META[0] + ' CONDORDER (counted C-string routines test the count before they read the element: reading one past a full field is not a constant expression).', META[1])

META = (META[0] + ' INTFB (the constant-evaluation fallback of popcount is evaluated from its source for every 8-bit value and boundary values of the wider types against the bit count).', META[1])


META = (META[0] + ' LITMASK over _bit/ (no mask or power of two is built by shifting an int / unsigned literal by a run-time count: for a 64-bit argument a count of 32 or more is undefined, so constant evaluation fails and run time wraps; control in fixtures/arith_pos.hpp).', META[1])


META = (META[0] + ' PPBUILTIN (string / memory builtins are reached only inside #if defined(__clang__): GCC rejects them in constant expressions over non-literal arrays).', META[1])


META = (META[0] + ' SHIFTNEG (a shift by a signed parameter - the int of the <cctype> functions, EOF included - happens only where the parameter is known to be non-negative; controls in fixtures/extra12_pos.hpp).', META[1])


def run(chk, tier):
    db = D.load("plain")
    census = []
    n_dual = 0
    for f in db.funcs:
        if "_3rd_party/" in f["file"]:
            continue
        sites = builtin_sites(f)
        ice = has_ice(f)
        if not sites and not ice:
            continue
        ident = identity(f)
        census.append({"function": astx.sig(f), "file": f["file"], "mode_switch": ice, "builtins": [astx.callee(c)[0] for c, _, _ in sites]})
        if not sites:
            continue
        construct = astx.sig(f)
        chk.instance("D1")
        n_dual += 1
        problems = []
        for call, conds, rt in sites:
            nm = astx.callee(call)[0]
            cn, width = canon(nm)
            if ice and rt is False:
                problems.append(("builtin-on-constant-path", "`%s` is called on the constant-evaluation path" % nm, call))
            # stem
            if cn.startswith(ident) and cn[len(ident):] in SUFFIX:
                suf = cn[len(ident):]
            elif ident.startswith(cn) and ident[len(cn):] in SUFFIX and len(cn) >= 3:
                suf = ""        # C-named variants (floorf calling __builtin_floorf handled above; nanf etc.)
            else:
                problems.append(("different-function", "run-time path calls `%s` inside `%s`" % (nm, ident), call))
                continue
            want = arm_suffix(conds, f)
            if width:
                if want is not None and want in ("16", "32", "64") and want != width:
                    problems.append(("precision", "`%s` in the %s-bit arm" % (nm, want), call))
            elif want is not None and want in SUFFIX and suf != want and not (ident.endswith(("f", "l")) and suf == ""):
                problems.append(("precision", "`%s` (suffix '%s') in the arm for suffix '%s'" % (nm, suf, want), call))
            names, got = param_args(call, f)
            if got != names[:len(got)] or len(got) != len(names):
                if not (len(got) == len(names) and all(g is not None for g in got) and sorted(got) == sorted(names) and False):
                    problems.append(("arguments", "`%s` does not receive the parameters %s in order" % (astx.show(call, 70), names), call))
        if ice:
            fb = final_fallback(f)
            fb0 = astx.strip_casts(fb) if fb is not None else None
            if fb0 is None:
                problems.append(("fallback", "no constant-evaluation fallback is returned", None))
            elif fb0.get("k") != "call":
                if ident in EXACT:
                    problems.append(("fallback-inline", "the constant-evaluation fallback is the inline expression `%s`, not an "
                                     "implementation of %s" % (astx.show(fb0, 60), ident), fb0))
                else:
                    chk.extra.setdefault("approximating_functions_with_inline_fallback", []).append(
                        "%s: `%s`" % (construct, astx.show(fb0, 80)))
            else:
                fn = astx.callee(fb0)[0] or ""
                fn = re.sub(r"(_impl|_fallback)$", "", fn)
                cnb, _w = canon(fn)
                if fn.startswith("__builtin_") and cnb.startswith(ident) and cnb[len(ident):] in SUFFIX:
                    pass    # the same builtin is usable in constant expressions
                elif not (fn == ident or fn.rstrip("fl") == ident.rstrip("fl") or ident.startswith(fn)
                        or (ident.startswith("ll") and fn == ident[1:])):
                    problems.append(("fallback", "constant-evaluation fallback calls `%s` inside `%s`" % (fn, ident), fb0))
                else:
                    names, got = param_args(fb0, f)
                    if [g for g in got if g is not None] != names[:len([g for g in got if g is not None])] or len(got) < len(names):
                        problems.append(("arguments", "fallback `%s` does not receive the parameters %s in order" % (astx.show(fb0, 70), names), fb0))
        chk.obligation("D1", construct, not problems, evaluations=max(1, len(sites)))
        for kind, msg, node in problems[:3]:
            chk.violation("D1", construct, kind, "%s: %s" % (astx.loc(f, node), msg), {"where": astx.loc(f)})
        if not problems:
            chk.sample({"function": construct, "identity": ident, "builtins": [astx.callee(c)[0] for c, _, _ in sites], "mode_switch": ice})
    # ---- D2: sibling overloads route to the same implementation
    by_file = {}
    for f in db.funcs:
        if f["file"].startswith("_cmath/") and f.get("kind") == "function":
            by_file.setdefault(f["file"], []).append(f)
    n2 = 0
    for file, fs in sorted(by_file.items()):
        stem = os.path.basename(file)[:-4]
        routes = {}
        for f in fs:
            if not (f["n"] == stem or f["n"] in (stem + "f", stem + "l")):
                continue
            body = f["body"]["s"] if f["body"].get("k") == "seq" else []
            e = astx.strip_casts(body[0].get("e")) if len(body) == 1 and body[0].get("k") == "return" else None
            if e is None or e.get("k") != "call":
                continue
            fn = astx.callee(e)[0] or ""
            if fn.startswith("__builtin_"):
                fn = "builtin:" + canon(fn)[0].rstrip("fl")
            fq = re.sub(r"(_impl|_fallback)$", "", fn)
            if fn == "operator()" or e.get("opcall"):
                fq = astx.show(e["f"], 60).split("::")[-1]
            if fq in (stem + "f", stem + "l"):
                fq = stem
            routes.setdefault(fq, []).append(f)
            n2 += 1
        chk.instance("D2", len(routes) and 1)
        targets = list(routes)
        ok = len(set(targets)) <= 1
        if routes:
            chk.obligation("D2", "etl::%s overload set" % stem, ok, evaluations=sum(len(v) for v in routes.values()))
        if not ok:
            minority = min(targets, key=lambda k: len(routes[k]))
            f = routes[minority][0]
            chk.violation("D2", astx.sig(f), "sibling-routes-elsewhere",
                          "%s: overload %s forwards to `%s` while its siblings forward to %s" % (
                              astx.loc(f), astx.sig(f), minority, sorted(set(targets) - {minority})), {"where": astx.loc(f)})
    files = lexer_census(D.ROOT)
    ast_files = set(c["file"] for c in census)
    only_lexer = sorted(set(files) - ast_files - set(x for x in files if x.startswith("_3rd_party/")))
    chk.extra["census_functions"] = len(census)
    chk.extra["census"] = census[:200]
    chk.extra["files_with_mode_switch_or_builtin_all_branches"] = len(files)
    chk.extra["files_seen_only_by_lexer"] = only_lexer
    chk.extra["skipped_pp_regions"] = len(db.skipped)
    chk.extra["functions_analysed"] = len(db.funcs)
    if n_dual < FLOOR:
        chk.analysis_broken("DISPATCH: only %d functions with compiler builtins recognised (floor %d)" % (n_dual, FLOOR))
    if n2 < 40:
        chk.analysis_broken("D2: only %d cmath overloads recognised (floor 40)" % n2)
    fb_rule(chk, db)
    fbg_rule(chk, db)
    from ..rules import iters as _ITR
    if _ITR.rawdiff_rule(chk, db) < 1:      # RAWDIFF: a signed overflow is not a constant expression although the run-time call wraps
        chk.unknown_instance('RAWDIFF', 'etl::midpoint', 'the integral overload of midpoint was not recognised')
    from ..rules import arith as _AR
    _AR.negmin_area(chk, D.load("checks"), [""])      # NEGMIN: `-min` is not a constant expression although the run-time call wraps
    _AR.positive_controls(chk, D, ("NEGMIN",))
    nzb_rule(chk, db)
    ppbuiltin_rule(chk)
    from ..rules import extra12 as _X12s
    _X12s.shift_negative_area(chk, D.load('checks'), ['_cctype/', '_cwctype/', '_bit/', '_strings/', '_charconv/', '_cstdlib/', '_cstring/'])      # SHIFTNEG (zero expected)
    _X12s.shift_negative_control(chk, D)
    from . import c17 as _c17
    _c17.litmask_rule(chk, db, ('_bit/',))      # LITMASK (zero expected on the library)
    aliasmode_rule(chk, db)
    from ..rules import intfb as _IFB
    if _IFB.check(chk, db) < 1:      # INTFB: the integer fallback of popcount computes popcount
        chk.unknown_instance('INTFB', 'etl::detail::popcount_fallback', 'the constant-evaluation fallback of popcount was not found')
    from ..rules import extra8 as _X8c
    _X8c.cond_order_area(chk, D.load('checks'), ['_string/char_traits', '_cstring/', '_cwchar/', '_strings/cstr'])      # CONDORDER: reading one past a full field is not a constant expression
    from ..rules import shift as _SH
    _SH.check(chk, db, ["_bit/", "_bitset/"], floor=20)      # SHIFT: shift counts stay below the promoted operand width
    chk.assumptions += [
        "a function without a mode switch executes the same abstract-machine code when constant-evaluated and at run time "
        "(correct compiler assumed)",
        "numerical agreement between the gcem fallback and the compiler builtin for particular arguments is value-level "
        "(C16) and not decided",
        "compiler-conditional code in the branch clang does not take (#if defined(__clang__) ... #else) is covered by the "
        "raw-lexer census only; files_seen_only_by_lexer lists it",
    ]


# ---- NZB: builtins that only promise "non-zero" are used in boolean context --------------------------------------------------
NONZERO_BUILTINS = re.compile(r"^__builtin_(isinf|isnan|isfinite|isnormal|signbit|isgreater|isgreaterequal|isless|islessequal|"
                              r"islessgreater|isunordered|isinf_sign)(f|l|f16|f32|f64|f128)?$")


def ppbuiltin_rule(chk):
    """PPBUILTIN: the string / memory builtins (`__builtin_strncmp`, `__builtin_memcmp`, `__builtin_strlen`, ...) are constant
    expressions for arbitrary constexpr arrays under clang only; GCC folds them for string literals and otherwise rejects the
    call in a constant expression while the run-time call works - exactly the divergence C13 excludes. The library's
    convention (all sites agree) is to reach them only inside `#if defined(__clang__)`. The rule tracks the preprocessor
    conditionals of every header that names such a builtin: the innermost governing condition mentions `__clang__`, is not
    negated, and admits no other compiler (`__GNUC__`, `or`, `||`). clang's own parse sees one branch only, which is why this is
    decided on the directive structure and not on the AST."""
    import glob
    pat = re.compile(r"__builtin_(?:str|mem|wcs|wmem)\w+\s*\(")
    n = 0
    for path in sorted(glob.glob(os.path.join(D.INCLUDE, "etl", "_c*", "*.hpp")) + glob.glob(os.path.join(D.INCLUDE, "etl", "_strings", "*.hpp"))):
        stack = []          # [(condition text of the active branch, is_else_branch)]
        rel = os.path.relpath(path, D.INCLUDE)
        for ln, line in enumerate(open(path, errors="replace"), 1):
            t = line.strip()
            m = re.match(r"#\s*(if|ifdef|ifndef|elif|else|endif)\b(.*)", t)
            if m:
                kw, rest = m.group(1), m.group(2).strip()
                if kw in ("if", "ifdef", "ifndef"):
                    stack.append(((("defined(%s)" % rest) if kw == "ifdef" else ("!defined(%s)" % rest) if kw == "ifndef" else rest), False))
                elif kw == "elif" and stack:
                    stack[-1] = (rest, False)
                elif kw == "else" and stack:
                    stack[-1] = (stack[-1][0], True)
                elif kw == "endif" and stack:
                    stack.pop()
                continue
            if t.startswith("//") or t.startswith("///"):
                continue
            if not pat.search(t):
                continue
            n += 1
            label = "%s:%d `%s`" % (rel, ln, t[:60])
            chk.instance("PPBUILTIN")
            govern = [c for c in stack if "clang" in c[0] or "GNUC" in c[0] or "MSC" in c[0]]
            ok = bool(govern) and not govern[-1][1] and "__clang__" in govern[-1][0] and not re.search(r"__GNUC__|\bor\b|\|\||!\s*defined\s*\(\s*__clang__", govern[-1][0])
            chk.obligation("PPBUILTIN", label, ok)
            if not ok:
                chk.violation("PPBUILTIN", label, "builtin-outside-clang", "include/%s:%d: `%s` is compiled under `%s`: GCC does not evaluate this "
                              "builtin in a constant expression unless its operands are string literals, so the call is rejected at "
                              "compile time where the portable loop (and the run-time call) succeeds" % (
                                  rel, ln, pat.search(t).group(0).rstrip("( "), (govern[-1][0] + (" (else branch)" if govern[-1][1] else "")) if govern else "no compiler test"),
                              {"where": "include/%s:%d" % (rel, ln)})
    if n < 8:
        chk.analysis_broken("PPBUILTIN: only %d uses of string / memory builtins found (floor 8)" % n)
    return n


def nzb_rule(chk, db):
    """The classification builtins return "non-zero" for true; which non-zero value is left open, and GCC's constant folder
    and its run-time expansion pick different ones (__builtin_isinf(-inf) folds to -1 and expands to 1; __builtin_signbit
    folds to 1 and expands to the sign bit's mask). A result that is only tested against zero / converted to bool is the same
    in both modes; any other use (`== 1`, arithmetic, returned as an integer) makes the constant-evaluated and the executed
    call differ. Decided per call site from the expression's parent."""
    n = 0
    for f in db.funcs:
        if f.get("body") is None:
            continue
        parents = {}
        for x in astx.all_exprs(f, into_lambdas=True):
            for c in astx.children(x):
                parents[id(c)] = x
        ret_bool = (f.get("ret") or "").strip() == "bool"
        returned = set()
        for st in astx.walk_stmts(f["body"]):
            if st.get("k") == "return" and st.get("e") is not None:
                e = st["e"]
                while e is not None and e.get("k") == "cast":
                    returned.add(id(e))
                    e = e["e"]
                if e is not None:
                    returned.add(id(e))
        conds = set()
        for st in astx.walk_stmts(f["body"]):
            if st.get("k") in ("if", "while", "do", "for") and st.get("c") is not None:
                conds.add(id(st["c"]))
        for x in astx.all_exprs(f, into_lambdas=True):
            if x.get("k") != "call" or not NONZERO_BUILTINS.match(astx.callee(x)[0] or ""):
                continue
            if (astx.callee(x)[0] or "").startswith("__builtin_isinf_sign"):
                continue        # documented to return -1 / 0 / +1
            n += 1
            construct = astx.sig(f)
            chk.instance("NZB")
            cur = x
            ok = None
            while ok is None:
                par = parents.get(id(cur))
                if id(cur) in conds:
                    ok = True
                elif id(cur) in returned and par is None:
                    ok = ret_bool
                elif par is None:
                    ok = False
                elif par.get("k") == "cast":
                    if par.get("ty", "").strip() == "bool":
                        ok = True
                    else:
                        cur = par
                elif par.get("k") == "un" and par["op"] == "!":
                    ok = True
                elif par.get("k") == "bin" and par["op"] in ("&&", "||"):
                    ok = True
                elif par.get("k") == "cond" and par.get("c") is cur:
                    ok = True
                elif par.get("k") == "bin" and par["op"] in ("==", "!="):
                    other = par["r"] if par["l"] is cur else par["l"]
                    try:
                        ok = astx.int_value(astx.strip_casts(other)) == 0
                    except Exception:
                        ok = False
                else:
                    ok = False
            chk.obligation("NZB", construct, ok)
            if not ok:
                chk.violation("NZB", construct, "nonzero-builtin-value-used",
                              "%s: `%s` is used as a number (`%s`); the builtin only promises a non-zero value for true and the "
                              "compiler's constant folder and its run-time expansion return different ones (GCC: "
                              "__builtin_isinf(-inf) is -1 when folded and 1 when executed)"
                              % (astx.loc(f, x), astx.show(x, 40), astx.show(parents.get(id(cur)) or cur, 60)), {"where": astx.loc(f)})
    if n < 2:
        chk.analysis_broken("NZB: only %d classification builtin calls found (floor 2)" % n)
    return n


# ---- ALIASMODE: a belief about overlapping arguments is held in both evaluation modes or in neither ---------------------------
def aliasmode_rule(chk, db):
    """A comparison of the *addresses* held by two pointer parameters (`source < dest`) is how code asks whether its ranges
    overlap. When that question is asked on one side of a mode switch only (inside `if (not is_constant_evaluated())`, or in
    the constant arm alone) the two evaluations handle overlapping arguments differently: the side that asks copies in the
    safe direction, the other does not. Every function with a mode switch is an instance; the sets of pointer-order tests of
    its run-time-only, constant-only and common regions are compared."""
    n = 0
    for f in db.funcs:
        if f.get("body") is None or not has_ice(f):
            continue
        ptr_params = set(p["n"] for p in f["params"] if "*" in p.get("ty", ""))
        n += 1
        construct = astx.sig(f)
        chk.instance("ALIASMODE")
        tests = {"rt": [], "ce": [], "both": []}

        def order_tests(e, mode):
            for x in astx.walk_expr(e, into_lambdas=True):
                if x.get("k") == "bin" and x["op"] in ("<", ">", "<=", ">="):
                    a, b = astx.strip_casts(x["l"]), astx.strip_casts(x["r"])
                    if a is not None and b is not None and a.get("k") == "ref" and b.get("k") == "ref" and \
                            a.get("n") in ptr_params and b.get("n") in ptr_params and a["n"] != b["n"]:
                        tests[mode].append(x)

        def walk(s, mode):
            if s is None:
                return
            ice = ice_of(s)
            if ice:
                walk(s.get("then"), "ce" if ice > 0 else "rt")
                walk(s.get("else"), "rt" if ice > 0 else "ce")
                return
            # `if (not ice() and ...)` / `if (ice() or ...)`: a conjunct that is the mode switch itself
            if s.get("k") == "if" and s.get("c") is not None:
                c = astx.strip_casts(s["c"])
                if c is not None and c.get("k") == "bin" and c["op"] == "&&":
                    for side, other in ((c["l"], c["r"]), (c["r"], c["l"])):
                        i2 = ice_of({"k": "if", "c": side})
                        if i2:
                            order_tests(other, "ce" if i2 > 0 else "rt")
                            walk(s.get("then"), "ce" if i2 > 0 else "rt")
                            walk(s.get("else"), mode)
                            return
            for e in astx.stmt_exprs(s):
                order_tests(e, mode)
            for c in astx.sub_stmts(s):
                walk(c, mode)
        walk(f["body"], "both")
        one_sided = None
        if tests["rt"] and not tests["ce"] and not tests["both"]:
            one_sided = ("run-time", tests["rt"][0])
        if tests["ce"] and not tests["rt"] and not tests["both"]:
            one_sided = ("constant-evaluation", tests["ce"][0])
        chk.obligation("ALIASMODE", construct, one_sided is None)
        if one_sided:
            chk.violation("ALIASMODE", construct, "overlap-handled-in-one-mode",
                          "%s: `%s` asks whether the argument ranges overlap on the %s path only; the other evaluation copies "
                          "without asking, so overlapping arguments give different results at compile time and at run time"
                          % (astx.loc(f, one_sided[1]), astx.show(one_sided[1], 40), one_sided[0]), {"where": astx.loc(f)})
    return n
