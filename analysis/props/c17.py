"""C17 - bitset equals std::bitset (clauses: padding-bit taint, delegation, storage arithmetic, contracts, equality)."""
import json

import re
from .. import astx
from .. import db as D
from ..rules import sets as SP
from ..rules import rel
from ..rules import guard as G
from . import c05
from witness import wit

META = ("TAINT (in every non-const member of basic_bitset, on every structural path of the has-padding configuration, a "
        "whole-word write that can set padding bits of the last word - ones, ~word, foreign words - is followed by a re-mask "
        "with padding_mask_inv before the function returns; all() compares the last word with padding_mask_inv), DELEG "
        "(etl::bitset forwards every member to the same-named / unchecked_ basic_bitset member), GUARD (pos-taking members: "
        "contract rules G1-G3 as in C05), REL (bitset == compares the word storage), W-TYPES (storage size = ceil(Bits / "
        "word bits) words for widths {1,7,8,9,31,32,33,63,64,65,127,128,129} x word types u8..u64; size() == Bits)",
        ["clang 14 parser/sema (tetl-ast)", "g++ 12 (witness)", "specs/contracts.json"])
BB = "etl::basic_bitset"
CLEAN_NAMES = {"padding_mask_inv"}


def words_field(db):
    rec = db.record(BB)
    return [fd["n"] for fd in rec["fields"]] if rec else []


def mentions_name(e, names):
    return any(x.get("k") in ("ref", "mem") and x.get("n") in names for x in astx.walk_expr(e, into_lambdas=True))


def is_words_begin(e, wf):
    e = astx.strip_casts(e)
    return e is not None and e.get("k") == "call" and astx.callee(e)[0] in ("begin",) and _recv_is_words(e, wf)


def _recv_is_words(call, wf):
    recv = astx.callee(call)[2]
    r = astx.strip_casts(recv)
    return r is not None and r.get("k") == "mem" and astx.is_this(r.get("b")) and r["n"] in wf


def is_words_end(e, wf):
    e = astx.strip_casts(e)
    return e is not None and e.get("k") == "call" and astx.callee(e)[0] in ("end",) and _recv_is_words(e, wf)


def value_clean(e):
    """a word value that cannot have padding bits set: 0, padding_mask_inv, or a bitwise and/or/xor of clean words is judged by
    the caller; here: literals and the mask"""
    e0 = astx.strip_casts(e)
    if e0 is None:
        return False
    if astx.int_value(e0) == 0:
        return True
    if e0.get("k") in ("ref", "mem") and e0.get("n") in CLEAN_NAMES:
        return True
    return False


def lambda_taints(lam):
    """a transform functor taints when its result can have bits set that its (clean) inputs did not have"""
    for x in astx.walk_stmt_exprs(lam.get("body"), into_lambdas=True):
        if x.get("k") == "un" and x["op"] == "~":
            return True
        if x.get("k") == "bin" and x["op"] in ("+", "-", "<<", "*"):
            return True
        if x.get("k") in ("ref", "mem") and x.get("n") == "ones":
            return True
    return False


def classify_event(e, wf):
    """returns list of 'taint' / 'sanitize' found in expression e (in evaluation order)"""
    out = []
    for x in astx.walk_expr(e, into_lambdas=False):
        if x.get("k") == "call":
            nm = astx.callee(x)[0]
            a = x["a"]
            if nm in ("fill",) and len(a) == 3 and is_words_begin(a[0], wf):
                if is_words_end(a[1], wf) and not value_clean(a[2]):
                    out.append(("taint", x))
            elif nm == "fill_n" and len(a) == 3 and is_words_begin(a[0], wf) and not value_clean(a[2]):
                out.append(("taint", x))
            elif nm == "transform" and len(a) >= 4:
                dest = a[2] if len(a) == 4 else a[3]
                lam = a[-1]
                if is_words_begin(dest, wf) and lam.get("k") == "lambda" and lambda_taints(lam):
                    out.append(("taint", x))
            elif nm in ("copy", "copy_n", "move") and len(a) == 3 and is_words_begin(a[2], wf):
                out.append(("taint", x))
        if x.get("k") == "bin" and x["op"] in ("=", "&=", "|=", "^="):
            l0 = astx.strip_casts(x["l"])
            if l0 is not None and l0.get("k") == "idx":
                b0 = astx.strip_casts(l0["b"])
                if b0 is not None and b0.get("k") == "mem" and astx.is_this(b0.get("b")) and b0["n"] in wf:
                    last = mentions_name(l0["i"], {"num_words"})
                    if x["op"] in ("=", "&=") and mentions_name(x["r"], CLEAN_NAMES) and last:
                        out.append(("sanitize", x))
                    elif x["op"] == "=" and not value_clean(x["r"]):
                        out.append(("taint", x))
                    elif x["op"] in ("|=", "^=") and not value_clean(x["r"]) and mentions_name(x["r"], {"ones"}):
                        out.append(("taint", x))
    return out


def taint_rule(chk, db):
    wf = words_field(db)
    if not wf:
        chk.analysis_broken("TAINT: basic_bitset has no data member")
        return
    n = 0
    for f in db.funcs_of_record(BB):
        if f.get("const") or f.get("defaulted") or f.get("static"):
            continue
        n += 1
        chk.instance("TAINT")
        construct = astx.sig(f)
        bad = None
        np = 0
        for p in SP.paths(f["body"]):
            no_padding = any(ev[0] == "cond" and mentions_name(ev[1], {"has_padding"}) and ev[2] is False for ev in p)
            if no_padding:
                continue
            np += 1
            tainted = None
            for ev in p:
                for e in SP.event_exprs(ev):
                    for kind, node in classify_event(e, wf):
                        if kind == "taint":
                            tainted = node
                        else:
                            tainted = None
            if tainted is not None and bad is None:
                bad = tainted
        chk.obligation("TAINT", construct, bad is None, evaluations=max(1, np))
        if bad is not None:
            chk.violation("TAINT", construct, "padding-not-remasked", "%s: `%s` can set padding bits of the last word and no re-mask with "
                          "padding_mask_inv follows on this path" % (astx.loc(f, bad), astx.show(bad, 80)), {"where": astx.loc(f)})
        else:
            chk.sample({"rule": "TAINT", "member": construct, "paths_with_padding": np})
    # all(): last word compared with the mask
    for f in db.by_q.get(BB + "::all", []):
        chk.instance("TAINT")
        ok = False
        for p in SP.paths(f["body"]):
            if any(ev[0] == "cond" and mentions_name(ev[1], {"has_padding"}) and ev[2] is True for ev in p):
                for ev in p:
                    for e in SP.event_exprs(ev):
                        for x in astx.walk_expr(e):
                            if x.get("k") == "bin" and x["op"] == "==" and mentions_name(x, {"num_words"}) and mentions_name(x, CLEAN_NAMES):
                                ok = True
        chk.obligation("TAINT", astx.sig(f) + " (observer)", ok)
        if not ok:
            chk.violation("TAINT", astx.sig(f), "observer-ignores-padding", "%s: all() does not compare the last word with padding_mask_inv "
                          "in the has-padding configuration" % astx.loc(f), {"where": astx.loc(f)})
    if n < 10:
        chk.analysis_broken("TAINT: only %d mutating members of basic_bitset (floor 10)" % n)


def deleg_rule(chk, db):
    n = 0
    for f in db.funcs_of_record("etl::bitset"):
        if f.get("kind") not in ("method",) or f.get("static"):
            continue
        calls = []
        for x in astx.all_exprs(f):
            if x.get("k") == "call" and x["f"].get("k") == "mem":
                b = astx.strip_casts(x["f"].get("b"))
                if b is not None and b.get("k") == "mem" and astx.is_this(b.get("b")):
                    calls.append(x["f"]["n"])
            if x.get("k") == "idx":
                b = astx.strip_casts(x["b"])
                if b is not None and b.get("k") == "mem" and astx.is_this(b.get("b")):
                    calls.append("operator[]")
            if x.get("k") == "bin" and x["op"] in ("&=", "|=", "^=", "=="):
                b = astx.strip_casts(x["l"])
                if b is not None and b.get("k") == "mem" and astx.is_this(b.get("b")):
                    calls.append("operator" + x["op"])
        if not calls:
            continue
        n += 1
        chk.instance("DELEG")
        own = f["n"]
        allowed = {own, "unchecked_" + own}
        if own == "test":
            allowed |= {"operator[]", "unchecked_test"}
        if own in ("to_string", "to_ulong", "to_ullong", "size"):
            continue
        ok = all(c in allowed for c in calls)
        chk.obligation("DELEG", astx.sig(f), ok)
        if not ok:
            chk.violation("DELEG", astx.sig(f), "wrong-callee", "%s: bitset::%s forwards to %s" % (astx.loc(f), own, sorted(set(calls) - allowed)),
                          {"where": astx.loc(f)})
    if n < 12:
        chk.analysis_broken("DELEG: only %d forwarding members of etl::bitset (floor 12)" % n)
    # single-bit members of basic_bitset use the bit primitive of their own name (set -> set_bit, reset -> reset_bit,
    # flip -> flip_bit, test -> test_bit), also inside the lambdas they hand to transform_bit
    prims = {"set_bit", "reset_bit", "flip_bit", "test_bit"}
    m = 0
    for f in db.funcs_of_record("etl::basic_bitset"):
        if f.get("body") is None or f.get("kind") != "method":
            continue
        base = f["n"][len("unchecked_"):] if f["n"].startswith("unchecked_") else f["n"]
        if base not in ("set", "reset", "flip", "test") or not f["params"]:
            continue
        used = [astx.callee(x)[0] for x in astx.all_exprs(f, into_lambdas=True) if x.get("k") == "call" and astx.callee(x)[0] in prims]
        if not used:
            continue
        m += 1
        chk.instance("DELEG")
        wrong = sorted(set(u for u in used if u != base + "_bit"))
        chk.obligation("DELEG", astx.sig(f), not wrong)
        if wrong:
            chk.violation("DELEG", astx.sig(f), "wrong-primitive", "%s: basic_bitset::%s applies %s to the addressed bit (its own primitive is %s_bit)" % (
                astx.loc(f), f["n"], ", ".join(wrong), base), {"where": astx.loc(f)})
    if m < 2:
        chk.analysis_broken("DELEG: only %d single-bit members of basic_bitset use a bit primitive (floor 2)" % m)


def bitprim_rule(chk, db):
    """BITPRIM: the single-bit primitives compute their defining function. The return expression of set_bit / reset_bit /
    flip_bit / test_bit (word, pos[, value]) is evaluated bitwise over a two-point domain: every word is the pair (bit at
    position pos, any other bit); `1 << pos` is (1, 0), `UInt(value) << pos` is (value, 0), `word >> pos` exposes the
    addressed bit, |, &, ^, ~ act componentwise. For all values of the word's two bits (and of `value`) the result must
    be: set -> (1 or value, other unchanged), reset -> (0, unchanged), flip -> (not bit, unchanged), test -> bit."""
    from .. import terms as _T
    n = 0

    class NM(Exception):
        pass

    def ev(e, env):
        e = astx.strip_casts(e)
        while e is not None and (e.get("k") == "paren" or (e.get("k") in ("construct", "initlist") and len(e.get("a", [])) == 1)):
            e = astx.strip_casts(e.get("e") if e.get("k") == "paren" else e["a"][0])
        if e is None:
            raise NM("empty")
        k = e.get("k")
        iv = astx.int_value(e)
        if iv is not None:
            return ("const", iv)
        if k in ("construct", "initlist") and not e.get("a"):
            return ("const", 0)
        if k == "bool":
            return ("const", 1 if e["v"] else 0)
        if k == "ref":
            if e["n"] == env["word"]:
                return ("bits", env["w"], env["o"])
            if e["n"] == env["pos"]:
                return ("pos",)
            if e["n"] == env.get("value"):
                return ("flag", env["v"])
            raise NM("name `%s`" % e["n"])
        if k == "un" and e["op"] == "~":
            x = ev(e["e"], env)
            if x[0] == "bits":
                return ("bits", 1 - x[1], 1 - x[2])
            raise NM("~ of a non-word")
        if k == "un" and e["op"] == "!":
            x = ev(e["e"], env)
            if x[0] == "flag":
                return ("flag", 1 - x[1])
            raise NM("! of a non-flag")
        if k == "bin" and e["op"] == "<<":
            l, r = ev(e["l"], env), ev(e["r"], env)
            if r[0] != "pos":
                raise NM("shift count is not pos")
            if l[0] == "const" and l[1] in (0, 1):
                return ("bits", l[1], 0)
            if l[0] == "flag":
                return ("bits", l[1], 0)
            raise NM("shifted operand")
        if k == "bin" and e["op"] == ">>":
            l, r = ev(e["l"], env), ev(e["r"], env)
            if r[0] == "pos" and l[0] == "bits":
                return ("low", l[1], l[2])       # bit 0 is the addressed bit, the bits above it are other bits
            raise NM("right shift")
        if k == "bin" and e["op"] in ("|", "&", "^"):
            l, r = ev(e["l"], env), ev(e["r"], env)
            f2 = {"|": lambda a, b: a | b, "&": lambda a, b: a & b, "^": lambda a, b: a ^ b}[e["op"]]
            if l[0] == "bits" and r[0] == "bits":
                return ("bits", f2(l[1], r[1]), f2(l[2], r[2]))
            for x, y in ((l, r), (r, l)):
                if x[0] == "low" and y[0] == "const" and y[1] == 1 and e["op"] == "&":
                    return ("flag", x[1])
            raise NM("bitwise operands")
        if k == "bin" and e["op"] in ("!=", "=="):
            l, r = ev(e["l"], env), ev(e["r"], env)
            for x, y in ((l, r), (r, l)):
                if y[0] == "const" and y[1] == 0 and x[0] == "bits":
                    nz = 1 if (x[1] or x[2]) else 0
                    return ("flag", nz if e["op"] == "!=" else 1 - nz)
                if y[0] == "const" and y[1] == 0 and x[0] == "flag":
                    return ("flag", x[1] if e["op"] == "!=" else 1 - x[1])
            raise NM("comparison")
        if k == "cond":
            c = ev(e["c"], env)
            if c[0] != "flag":
                raise NM("condition")
            return ev(e["t"] if c[1] else e["f"], env)
        raise NM(astx.show(e, 40))

    for name in ("set_bit", "reset_bit", "flip_bit", "test_bit"):
        for f in db.by_q.get("etl::" + name, []):
            if f.get("body") is None or len(f["params"]) < 2 or f["params"][1]["ty"].replace("const ", "").strip() == "bool":
                continue
            ret = None
            for st in (f["body"].get("s") or []):
                if st.get("k") == "return":
                    ret = st.get("e")
            n += 1
            construct = astx.sig(f)
            chk.instance("BITPRIM")
            bad = unk = None
            cnt = 0
            has_v = len(f["params"]) == 3
            for w in (0, 1):
                for o in (0, 1):
                    for v in ((0, 1) if has_v else (None,)):
                        env = {"word": f["params"][0]["n"], "pos": f["params"][1]["n"], "value": f["params"][2]["n"] if has_v else None,
                               "w": w, "o": o, "v": v}
                        try:
                            if ret is None:
                                raise NM("no single return")
                            r = ev(ret, env)
                        except NM as ex:
                            unk = str(ex)
                            break
                        cnt += 1
                        if name == "test_bit":
                            want = ("flag", w)
                        else:
                            want = ("bits", {"set_bit": (v if has_v else 1), "reset_bit": 0, "flip_bit": 1 - w}[name], o)
                        if r != want and bad is None:
                            bad = (env, r, want)
            if unk:
                chk.obligation("BITPRIM", construct, None)
                chk.unknown_instance("BITPRIM", construct, "not modelled: %s" % unk)
                continue
            chk.obligation("BITPRIM", construct, bad is None, evaluations=cnt)
            if bad:
                env, r, want = bad
                chk.violation("BITPRIM", construct, "wrong-bit-function", "%s: with the addressed bit = %d, another bit = %d%s the result has %s, "
                              "%s requires %s" % (astx.loc(f), env["w"], env["o"], (", value = %d" % env["v"]) if env["v"] is not None else "",
                                                 r[1:], name, want[1:]), {"where": astx.loc(f)})
    if n < 4:
        chk.analysis_broken("BITPRIM: only %d bit primitives found (floor 4)" % n)


def agg_rule(chk, db):
    """AGG: all() / any() / none() of basic_bitset are evaluated over the class domain of its words. A bitset of two words is
    modelled; every word is zero (Z), full (O: `ones`, or `padding_mask_inv` for the padded last word) or mixed (M). The
    quantifier algorithms range over the words they are given (`prev(cend())` drops the last word), the lambdas compare a word
    with `ones` / 0, `_words[num_words - 1]` is the last word; both `if constexpr (has_padding)` alternatives are evaluated.
    all() must hold exactly when every word is full, none() when every word is zero, any() = not none()."""
    rq = "etl::basic_bitset"
    members = dict((f["n"], f) for f in db.funcs_of_record(rq) if f["n"] in ("all", "any", "none") and f.get("body") is not None and not f["params"])
    if len(members) < 3:
        chk.analysis_broken("AGG: all() / any() / none() of basic_bitset not found")
        return

    class NM(Exception):
        pass

    class Ret(Exception):
        def __init__(self, v):
            self.v = v

    def lam_truth(lam, cls, padded_last):
        """truth of a one-parameter lambda `word == ones` / `word == 0` / `word != 0` on a word of class cls"""
        body = lam.get("body")
        st = (body.get("s") or [None])[0] if body else None
        if st is None or st.get("k") != "return":
            raise NM("lambda body")
        pn = (lam.get("params") or [{}])[0].get("n")

        def t(e):
            e = astx.strip_casts(e)
            while e is not None and e.get("k") == "paren":
                e = astx.strip_casts(e.get("e"))
            if e is None:
                raise NM("empty")
            if e.get("k") == "un" and e["op"] == "!":
                return not t(e["e"])
            if e.get("k") == "bin" and e["op"] in ("==", "!="):
                sides = [astx.strip_casts(e["l"]), astx.strip_casts(e["r"])]
                w = [x for x in sides if x is not None and x.get("k") == "ref" and x.get("n") == pn]
                o = [x for x in sides if x is not w[0]] if w else []
                if len(w) == 1 and len(o) == 1:
                    other = o[0]
                    while other is not None and other.get("k") in ("construct", "initlist") and len(other.get("a", [])) == 1:
                        other = astx.strip_casts(other["a"][0])
                    if other is not None and other.get("k") in ("ref", "mem") and other.get("n") == "ones":
                        eq = cls == "O" and not padded_last      # a padded last word never equals `ones`
                    elif other is not None and other.get("k") in ("ref", "mem") and other.get("n") == "padding_mask_inv":
                        eq = cls == "O" and padded_last
                    elif other is not None and (astx.int_value(other) == 0 or (other.get("k") in ("construct", "initlist") and not other.get("a"))):
                        eq = cls == "Z"
                    else:
                        raise NM("word compared with " + astx.show(other, 20))
                    return eq if e["op"] == "==" else not eq
            raise NM(astx.show(e, 30))
        return t(st.get("e"))

    def ev(e, env):
        e = astx.strip_casts(e)
        while e is not None and e.get("k") == "paren":
            e = astx.strip_casts(e.get("e"))
        if e is None:
            raise NM("empty")
        k = e.get("k")
        if k == "bool":
            return bool(e["v"])
        if k == "ref" and e["n"] in env["locals"]:
            return env["locals"][e["n"]]
        if k == "un" and e["op"] == "!":
            return not ev(e["e"], env)
        if k == "bin" and e["op"] in ("&&", "||"):
            a, b = ev(e["l"], env), ev(e["r"], env)
            return (a and b) if e["op"] == "&&" else (a or b)
        if k == "bin" and e["op"] in ("==", "!="):
            # _words[num_words - 1] == padding_mask_inv
            l, r = astx.strip_casts(e["l"]), astx.strip_casts(e["r"])
            for a, b in ((l, r), (r, l)):
                if a is not None and a.get("k") == "idx" and "num_words" in astx.show(a["i"], 30) and b is not None and b.get("k") in ("ref", "mem"):
                    cls = env["words"][-1]
                    if b.get("n") == "padding_mask_inv":
                        eq = cls == "O" and env["padded"]
                    elif b.get("n") == "ones":
                        eq = cls == "O" and not env["padded"]
                    else:
                        raise NM("last word compared with " + str(b.get("n")))
                    return eq if e["op"] == "==" else not eq
            raise NM(astx.show(e, 30))
        if k == "call":
            nm, q, recv, kind = astx.callee(e)
            if nm in ("all_of", "any_of", "none_of") and len(e["a"]) == 3:
                last_txt = astx.show(e["a"][1], 40)
                idxs = list(range(len(env["words"])))
                if "prev" in last_txt:
                    idxs = idxs[:-1]
                elif "end" not in last_txt:
                    raise NM("range end " + last_txt)
                if "begin" not in astx.show(e["a"][0], 40) or "next" in astx.show(e["a"][0], 40):
                    raise NM("range begin")
                lam = astx.strip_casts(e["a"][2])
                if lam is not None and lam.get("k") == "ref" and lam["n"] in env["lambdas"]:
                    lam = env["lambdas"][lam["n"]]
                if lam is None or lam.get("k") != "lambda":
                    raise NM("predicate is not a lambda")
                vals = [lam_truth(lam, env["words"][i], env["padded"] and i == len(env["words"]) - 1) for i in idxs]
                return all(vals) if nm == "all_of" else (any(vals) if nm == "any_of" else not any(vals))
            if nm in members and not e["a"] and (kind != "member" or recv is None or astx.is_this(astx.strip_casts(recv))):
                return run(members[nm], env["words"], env["padded"], env["depth"] + 1)
        raise NM(astx.show(e, 30))

    def run_stmt(st, env):
        k = st.get("k")
        if k == "seq":
            for c in st["s"]:
                run_stmt(c, env)
        elif k == "decl":
            for v in st["vars"]:
                if "other" in v or v.get("init") is None:
                    continue
                i0 = astx.strip_casts(v["init"])
                if i0 is not None and i0.get("k") == "lambda":
                    env["lambdas"][v["n"]] = i0
                else:
                    env["locals"][v["n"]] = ev(v["init"], env)
        elif k == "if":
            if st.get("constexpr") and "has_padding" in astx.show(st["c"], 40):
                neg = astx.show(st["c"], 40).strip().startswith("!") or astx.show(st["c"], 40).strip().startswith("not")
                take_then = env["padded"] != neg
                br = st.get("then") if take_then else st.get("else")
            else:
                br = st.get("then") if ev(st["c"], env) else st.get("else")
            if br is not None:
                run_stmt(br, env)
        elif k == "return":
            raise Ret(ev(st.get("e"), env))
        else:
            raise NM("statement " + str(k))

    def run(f, words, padded, depth=0):
        if depth > 3:
            raise NM("recursion")
        env = {"words": words, "padded": padded, "locals": {}, "lambdas": {}, "depth": depth}
        try:
            run_stmt(f["body"], env)
        except Ret as r:
            return bool(r.v)
        raise NM("no return")

    import itertools
    for nm, f in sorted(members.items()):
        construct = astx.sig(f)
        chk.instance("AGG")
        bad = unknown = None
        cnt = 0
        for padded in (False, True):
            for words in itertools.product("ZOM", repeat=2):
                try:
                    got = run(f, list(words), padded)
                except NM as ex:
                    unknown = str(ex)
                    break
                cnt += 1
                full = all(w == "O" for w in words)
                zero = all(w == "Z" for w in words)
                want = {"all": full, "none": zero, "any": not zero}[nm]
                if got != want and bad is None:
                    bad = (words, padded, got)
            if unknown:
                break
        if unknown:
            chk.obligation("AGG", construct, None)
            chk.unknown_instance("AGG", construct, "not modelled: %s" % unknown)
            continue
        chk.obligation("AGG", construct, bad is None, evaluations=cnt)
        if bad:
            words, padded, got = bad
            names = {"Z": "all zero", "O": "all ones", "M": "mixed"}
            chk.violation("AGG", construct, "aggregate-query", "%s: with a first word that is %s and a last word that is %s (%s) %s() returns %s" % (
                astx.loc(f), names[words[0]], names[words[1]], "padded width" if padded else "width a multiple of the word size", nm,
                str(got).lower()), {"where": astx.loc(f)})


def retarg_rule(chk, db):
    """RETARG: a conversion member that returns an arithmetic type R and obtains its value from a helper template with one
    explicit arithmetic type argument (`to_unsigned_type<unsigned long>()`) passes R itself: a narrower argument computes the
    value in fewer bits and only then widens it."""
    import re
    arith = re.compile(r"^(unsigned|signed|int|long|short|char|unsigned (int|long|long long|short|char)|long long|"
                       r"(etl::)?u?int(8|16|32|64)_t|(etl::)?size_t)$")
    n = 0
    for f in db.funcs:
        if f.get("body") is None or not f["file"].startswith("_bitset/"):
            continue
        ret = (f.get("ret") or "").replace("const ", "").strip()
        if not arith.match(ret):
            continue
        rets = [st for st in astx.walk_stmts(f["body"]) if st.get("k") == "return" and st.get("e") is not None]
        for st in rets:
            e = astx.strip_casts(st["e"])
            if e is None or e.get("k") != "call":
                continue
            ta = (e["f"].get("targs") or "").strip()
            if not ta or "," in ta or not arith.match(ta):
                continue
            n += 1
            construct = "%s :: `%s`" % (astx.sig(f), astx.show(e, 50))
            chk.instance("RETARG")

            def canon(t):
                t = t.replace("etl::", "").strip()
                return {"unsigned": "unsigned int", "long": "long", "unsigned long": "unsigned long"}.get(t, t)
            ok = canon(ta) == canon(ret)
            chk.obligation("RETARG", construct, ok)
            if not ok:
                chk.violation("RETARG", construct, "narrower-helper-type", "%s: %s returns `%s` but computes its value with `%s`" % (
                    astx.loc(f, st), f["n"], ret, ta), {"where": astx.loc(f)})
    return n


def proxy_rule(chk, db):
    """PROXY: assignment to the bit proxy writes the referenced bit. Both `reference::operator=(bool)` and
    `reference::operator=(reference const&)` are user-provided and every path through them stores into the referenced word
    (a defaulted copy assignment would rebind the proxy instead, b[i] = b[j] would change nothing)."""
    n = 0
    for rq, recs in db.rec_by_q.items():
        if not rq.endswith("::reference") or "bitset" not in rq:
            continue
        rec = recs[0] if isinstance(recs, list) else recs
        fields = set(fd["n"] for fd in rec.get("fields", []))
        ops = [f for f in db.funcs if f.get("record") == rq and f["n"] == "operator="]
        kinds = {}
        for f in ops:
            ty = f["params"][0]["ty"] if f["params"] else ""
            kinds["reference" if "reference" in ty else ("bool" if "bool" in ty else ty)] = f
        for want in ("bool", "reference"):
            construct = "%s::operator=(%s)" % (rq, "bool" if want == "bool" else "reference const&")
            chk.instance("PROXY")
            n += 1
            f = kinds.get(want)
            if f is None:
                if want == "reference":
                    chk.obligation("PROXY", construct, False)
                    chk.violation("PROXY", construct, "implicit-assignment", "include/etl/%s: %s has no user-provided copy assignment: the implicit "
                                  "one rebinds the proxy and never writes the bit" % (rec.get("file", "?"), rq), {"where": rec.get("file")})
                else:
                    chk.obligation("PROXY", construct, None)
                    chk.unknown_instance("PROXY", construct, "no operator=(bool) found")
                continue
            if f.get("body") is None:
                chk.obligation("PROXY", construct, False)
                chk.violation("PROXY", construct, "defaulted-assignment", "%s: the assignment is defaulted/deleted: it copies the proxy's "
                              "members instead of writing the referenced bit" % astx.loc(f), {"where": astx.loc(f)})
                continue
            bad = None
            for p in SP.paths(f["body"]):
                wrote = False
                for ev in p:
                    for e in SP.event_exprs(ev):
                        for x in astx.walk_expr(e):
                            if x.get("k") == "bin" and x["op"] in ("=", "|=", "&=", "^="):
                                l = astx.strip_casts(x["l"])
                                if l is not None and l.get("k") == "un" and l["op"] == "*":
                                    t = astx.strip_casts(l["e"])
                                    if t is not None and t.get("k") == "mem" and t.get("n") in fields:
                                        wrote = True
                            if x.get("k") == "call" and astx.callee(x)[0] in ("set", "reset", "flip", "operator=") and astx.callee(x)[3] == "member":
                                wrote = True
                            # `*this = value` with a bool operand: the sibling operator=(bool), which is judged on its own
                            if want == "reference" and x.get("k") == "bin" and x["op"] == "=":
                                l2 = astx.strip_casts(x["l"])
                                while l2 is not None and l2.get("k") == "paren":
                                    l2 = astx.strip_casts(l2.get("e"))
                                r2 = astx.strip_casts(x["r"])
                                if l2 is not None and l2.get("k") == "un" and l2["op"] == "*" and astx.is_this(astx.strip_casts(l2["e"])) and \
                                        not (r2 is not None and r2.get("k") == "ref" and "reference" in (r2.get("ty") or "")):
                                    wrote = True
                if not wrote:
                    bad = p
            chk.obligation("PROXY", construct, bad is None)
            if bad is not None:
                chk.violation("PROXY", construct, "no-write-through", "%s: a path through the proxy assignment does not store into the referenced word" % astx.loc(f),
                              {"where": astx.loc(f)})
    if n < 2:
        chk.analysis_broken("PROXY: no bit proxy class found")


def strbit_rule(chk, db):
    """STRBIT: in the string constructor the character at offset i of the M characters used initialises bit M - 1 - i
    ([bitset.cons]: the rightmost character is bit 0), the same direction to_string writes them. Decided on the linear form
    of the bit index passed to set()/operator[]: its coefficient in the loop counter that indexes the string must be -1."""
    from ..rules import slots as SL
    n = 0
    for f in db.funcs:
        if f.get("record") not in ("etl::bitset", "etl::basic_bitset") or f["n"] != "<ctor>" or f.get("body") is None:
            continue
        if not any("string_view" in p0["ty"] for p0 in f["params"]):
            continue
        strp = [p0["n"] for p0 in f["params"] if "string_view" in p0["ty"]][0]
        derived = {strp}
        for st in astx.walk_stmts(f["body"]):
            if st.get("k") == "decl":
                for v in st["vars"]:
                    if "other" not in v and v.get("init") is not None and any(
                            y.get("k") == "ref" and y.get("n") in derived for y in astx.walk_expr(v["init"])) and any(
                            y.get("k") == "call" and astx.callee(y)[0] in ("substr", "subview", "remove_prefix") for y in astx.walk_expr(v["init"])):
                        derived.add(v["n"])
        seen_ctor = True
        for loop in [st for st in astx.walk_stmts(f["body"]) if st.get("k") == "for"]:
            init = loop.get("init")
            if not init or init.get("k") != "decl" or len(init["vars"]) != 1:
                continue
            iv = init["vars"][0]["n"]
            env = SL.Env(f, False)
            for st in astx.walk_stmts(f["body"]):
                if st.get("k") == "decl":
                    for v in st["vars"]:
                        if "other" not in v and v.get("init") is not None and v["n"] != iv:
                            t = SL.lin(v["init"], env)
                            if t is not None:
                                env.locals[v["n"]] = t
            char_idx = []
            bit_idx = []
            for x in astx.walk_stmt_exprs(loop.get("body"), into_lambdas=True):
                if x.get("k") == "idx":
                    # in a dependent subscript clang cannot tell base from index: accept either order
                    bb, ii = astx.strip_casts(x["b"]), astx.strip_casts(x["i"])
                    if bb is not None and bb.get("k") == "ref" and bb.get("n") in derived:
                        char_idx.append(SL.lin(x["i"], env))
                    elif ii is not None and ii.get("k") == "ref" and ii.get("n") in derived:
                        char_idx.append(SL.lin(x["b"], env))
                if x.get("k") == "call" and astx.callee(x)[0] in ("operator[]", "at") and astx.callee(x)[3] == "member":
                    b = astx.strip_casts(astx.callee(x)[2])
                    if b is not None and b.get("k") == "ref" and b.get("n") in derived and x["a"]:
                        char_idx.append(SL.lin(x["a"][0], env))
                if x.get("k") == "call" and astx.callee(x)[0] in ("set", "reset", "unchecked_set") and astx.is_this(astx.callee(x)[2]) and x["a"]:
                    bit_idx.append((SL.lin(x["a"][0], env), x))
            if not char_idx or not bit_idx:
                continue
            n += 1
            construct = astx.sig(f)
            chk.instance("STRBIT")
            ci = [c.c.get(iv, 0) if c is not None else None for c in char_idx]
            bad = None
            unknown = False
            for b, node in bit_idx:
                if b is None or None in ci:
                    unknown = True
                    continue
                # character offset grows with i (coefficient +1) => bit index must fall with i
                if any(c * b.c.get(iv, 0) >= 0 for c in ci):
                    bad = (b, node)
            chk.obligation("STRBIT", construct, False if bad else (None if unknown else True))
            if bad:
                chk.violation("STRBIT", construct, "string-bit-order", "%s: character `%s[%s]` initialises bit `%s`: the index grows with the "
                              "character offset, so the leftmost character becomes bit 0 (std::bitset: the rightmost)" % (
                                  astx.loc(f, bad[1]), strp, char_idx[0], bad[0]), {"where": astx.loc(f)})
            elif unknown:
                chk.unknown_instance("STRBIT", construct, "index expressions are not linear forms")
    if n < 1:
        if any(f.get("record") in ("etl::bitset", "etl::basic_bitset") and f["n"] == "<ctor>" and any("string_view" in p0["ty"] for p0 in f["params"])
               for f in db.funcs):
            chk.instance("STRBIT")
            chk.obligation("STRBIT", "etl::bitset string constructor", None)
            chk.unknown_instance("STRBIT", "etl::bitset string constructor", "the character loop is not of a recognised shape")
        else:
            chk.analysis_broken("STRBIT: bitset no longer has a string_view constructor")


def strlen_rule(chk, db):
    """STRLEN: the string constructor uses M = min(n, str.size() - pos) characters ([bitset.cons]). The loop bound is normalised to
    a linear form (substr(p, c) has size min(c, size - p)) and compared with that specification."""
    from ..rules import slots as SL
    from ..rules import sets as SP
    n = 0
    for f in db.funcs:
        if f.get("record") not in ("etl::bitset", "etl::basic_bitset") or f["n"] != "<ctor>" or f.get("body") is None:
            continue
        sp = [p0["n"] for p0 in f["params"][:1] if p0["ty"].replace("const ", "").strip().startswith("basic_string_view")]
        if not sp or len(f["params"]) < 3:
            continue
        strp, posp, np_ = sp[0], f["params"][1]["n"], f["params"][2]["n"]
        env = SL.Env(f, False)
        views = {strp: (SL.const(0), None)}      # view name -> (offset into str, size Lin or None = whole)

        def size_of(name):
            off, sz = views[name]
            return SL.sym("size(%s)" % strp) - off if sz is None else sz

        def lin2(e):
            e0 = astx.strip_casts(e)
            if e0 is not None and e0.get("k") == "call":
                nm, q, recv, kind = astx.callee(e0)
                r0 = astx.strip_casts(recv) if recv is not None else None
                if kind == "member" and nm in ("size", "length") and r0 is not None and r0.get("k") == "ref" and r0["n"] in views:
                    return size_of(r0["n"])
                if nm in ("min",) and len(e0["a"]) == 2:
                    a, b = lin2(e0["a"][0]), lin2(e0["a"][1])
                    if a is not None and b is not None:
                        return SL._mn(env, a, b)
            if e0 is not None and e0.get("k") == "bin" and e0["op"] in ("+", "-"):
                a, b = lin2(e0["l"]), lin2(e0["r"])
                if a is None or b is None:
                    return None
                return a + b if e0["op"] == "+" else a - b
            if e0 is not None and e0.get("k") == "ref" and e0.get("n") in env.locals:
                return env.locals[e0["n"]]
            return SL.lin(e, env)

        bound = None
        for st in astx.walk_stmts(f["body"]):
            if st.get("k") == "decl":
                for v in st["vars"]:
                    if "other" in v or v.get("init") is None:
                        continue
                    i0 = astx.strip_casts(v["init"])
                    if i0 is not None and i0.get("k") == "call" and astx.callee(i0)[0] == "substr":
                        r0 = astx.strip_casts(astx.callee(i0)[2])
                        if r0 is not None and r0.get("k") == "ref" and r0["n"] in views and i0["a"]:
                            p_ = lin2(i0["a"][0])
                            c_ = lin2(i0["a"][1]) if len(i0["a"]) > 1 else None
                            if p_ is not None:
                                base_sz = size_of(r0["n"])
                                sz = base_sz - p_ if c_ is None else SL._mn(env, c_, base_sz - p_)
                                views[v["n"]] = (views[r0["n"]][0] + p_, sz)
                                continue
                    t = lin2(v["init"])
                    if t is not None:
                        env.locals[v["n"]] = t
            if st.get("k") == "for" and st.get("c") is not None and bound is None:
                c = astx.strip_casts(st["c"])
                if c.get("k") == "bin" and c["op"] in ("<", "!="):
                    bound = lin2(c["r"])
        n += 1
        construct = astx.sig(f)
        chk.instance("STRLEN")
        want = SL._mn(env, SL.sym(np_), SL.sym("size(%s)" % strp) - SL.sym(posp))
        if bound is None:
            chk.obligation("STRLEN", construct, None)
            chk.unknown_instance("STRLEN", construct, "the loop bound is not a linear form")
            continue
        ok = (bound == want)
        chk.obligation("STRLEN", construct, ok)
        if not ok:
            chk.violation("STRLEN", construct, "characters-used", "%s: the constructor uses `%s` characters; [bitset.cons] specifies min(n, str.size() - pos) = `%s`" % (
                astx.loc(f), bound, want), {"where": astx.loc(f)})
    if n < 1:
        chk.analysis_broken("STRLEN: bitset no longer has a (string_view, pos, n) constructor")


def witness(chk):
    pro = "#include <etl/bitset.hpp>\n#include <etl/cstdint.hpp>\n#include <bitset>\n#include <type_traits>\n"
    tu = wit.TU("c17", pro)
    for w in (1, 7, 8, 9, 31, 32, 33, 63, 64, 65, 127, 128, 129):
        for wt, bits in (("etl::uint8_t", 8), ("etl::uint16_t", 16), ("etl::uint32_t", 32), ("etl::uint64_t", 64)):
            words = (w + bits - 1) // bits
            tu.add("static_assert(sizeof(etl::basic_bitset<%d, %s>) == %d * sizeof(%s) && etl::basic_bitset<%d, %s>{}.size() == %d);" % (
                w, wt, words, wt, w, wt, w), "basic_bitset<%d,%s> storage is %d word(s)" % (w, wt, words))
        tu.add("static_assert(etl::bitset<%d>{}.size() == std::bitset<%d>{}.size());" % (w, w), "bitset<%d>::size()" % w)
        tu.add("static_assert(std::is_trivially_copy_assignable_v<etl::bitset<%d>::reference> == std::is_trivially_copy_assignable_v<std::bitset<%d>::reference>);" % (w, w),
               "bitset<%d>::reference copy assignment is user-provided like std's" % w)
    res = wit.compile_many([tu])
    results, un = res[tu.name]
    wit.judge(chk, "W-TYPES", tu, results, un)
    chk.instance("W-TYPES", len(tu.obl))


def guard_rule(chk, db):
    with open(c05.SPEC) as fh:
        table = [e for e in json.load(fh)["entries"] if e["id"].startswith(("bitset.", "basic_bitset.", "bit."))]
    n = 0
    for ent in table:
        for f in c05.select(db, ent):
            n += 1
            chk.instance("GUARD")
            r = G.check_operation(db, f, ent["req"], kind=ent.get("kind", "A"))
            for rule, status, wit_ in (("G1", r.g1, r.g1_witness), ("G2", r.g2, r.g2_witness), ("G3", r.g3, r.g3_witness)):
                chk.obligation(rule, astx.sig(f), True if status == "PROVED" else (None if status == "UNKNOWN" else False), evaluations=max(1, r.models))
                if status in ("REFUTED", "ABSENT"):
                    chk.violation(rule, astx.sig(f), {"G1": "weak", "G2": "spurious", "G3": "order"}[rule],
                                  "%s: contract rule %s fails for `%s`: %s" % (astx.loc(f), rule, ent["req"], json.dumps(wit_)), {"where": astx.loc(f)})
    if n < 12:
        chk.analysis_broken("GUARD: only %d bit-position operations matched the contract table" % n)


META_EXTRA = 'PROXY (proxy assignments write through); STRBIT (string constructor maps the rightmost character to bit 0); STRLEN (it uses min(n, size - pos) characters); SHIFT; PARAM.'
META = (META[0] + " " + META_EXTRA, META[1])
META = (META[0] + " DELEG also for basic_bitset's single-bit members (primitive of their own name); BITPRIM (bit primitives evaluated over the two-point bit domain); IT4i.", META[1])
META = (META[0] + ' AGG (all / any / none over word classes zero / full / mixed).', META[1])
META = (META[0] + " RETARG (helper type argument equals the conversion's return type).", META[1])
META = (META[0] + ' SIBNAME; COPYMOD (value-returning operators read the object they copy).', META[1])

META = (META[0] + ' ACCTYPE (folds over the words do not accumulate in an int deduced from a literal initial value; controls in fixtures/arith_pos.hpp).', META[1])

META = (META[0] + ' WORDSPLIT (every (word, offset) pair basic_bitset hands to a bit primitive is evaluated from the source for all positions and word widths: word pos / W, offset pos % W); CSTRN (the (pointer, n) constructor measures the array only in the `n == npos` arm); LITMASK (no mask is built by shifting an int / unsigned literal by a run-time offset; controls in fixtures/arith_pos.hpp).', META[1])


META = (META[0] + ' SELFGUARD (a non-idempotent compound assignment such as ^= is not skipped for the object itself; controls in fixtures/extra10_pos.hpp).', META[1])


META = (META[0] + ' UNCOND (compound operators apply their operation on every path).', META[1])


META = (META[0] + ' WHOLEOPS (set() / reset() overwrite every word before anything reads the old words; flip() never stores a constant into a word).', META[1])


def run(chk, tier):
    db = D.load("checks")
    from ..rules import params as _PR
    _PR.check(chk, db, ['_bitset/', '_bit/'], floor=40)
    from ..rules import iters as _ITX
    _ITX.reverse_index_area(chk, db, ['_bitset/', '_bit/'])      # IT4i: downward index scans reach index 0
    taint_rule(chk, db)
    deleg_rule(chk, db)
    guard_rule(chk, db)
    proxy_rule(chk, db)
    bitprim_rule(chk, db)
    wordsplit_rule(chk, db)
    cstrn_rule(chk, db)
    litmask_rule(chk, db)
    wholeops_rule(chk, db)
    agg_rule(chk, db)
    retarg_rule(chk, db)
    from ..rules import iters as _ITG
    _ITG.sibname_area(chk, db, ['_bitset/'])      # SIBNAME: to_ulong / to_ullong have one body
    _ITG.copymod_area(chk, db, ['_bitset/'])      # COPYMOD: value-returning operators read the object they copy
    from ..rules import arith as _AR
    if _AR.acctype_area(chk, db, ['_bitset/']) < 1:      # ACCTYPE: folds over the words accumulate in the word type, not in int
        chk.unknown_instance("ACCTYPE", "etl::basic_bitset", "no fold over the words found")
    _AR.positive_controls(chk, D, ("ACCTYPE",))
    from ..rules import extra10 as _X10
    if _X10.self_guard_area(chk, db, ['_bitset/']) < 2:      # SELFGUARD: b ^= b clears
        chk.unknown_instance('SELFGUARD', 'etl::bitset', 'fewer than 2 non-idempotent compound assignments found')
    _X10.positive_controls(chk, D, ('SELFGUARD',))
    from ..rules import extra12 as _X12
    _X12.unconditional_area(chk, db, ['_bitset/'])      # UNCOND
    from ..rules import shift as _SH
    _SH.check(chk, db, ["_bit/", "_bitset/"], floor=20)      # SHIFT: shift counts stay below the promoted operand width
    strbit_rule(chk, db)
    strlen_rule(chk, db)
    nrel = rel.check(chk, db, ["_bitset/bitset.hpp"])
    witness(chk)
    chk.assumptions += [
        "bit order of the string conversion and the values of to_ulong/to_ullong are run-time values and are not decided",
        "TAINT assumes the operands of &=, |=, ^= satisfy the invariant themselves (it is established for every mutating member)",
    ]


# ---- WORDSPLIT: a bit position is split into (word index, offset in the word) as (pos / W, pos % W) ---------------------------
def wordsplit_rule(chk, db):
    """Every member of basic_bitset that addresses a bit hands a word `_words[X]` and an offset Y, both computed from one
    position parameter, to a primitive (`test_bit(_words[X], Y)`, `reference{_words[X], Y}`, `op(word, Y)` with
    `word = _words[X]`). With W = bits_per_word the only correct split is X = pos / W and Y = pos % W. X and Y are evaluated
    from the source (one-return static helpers inlined, static constexpr members from their initialisers,
    numeric_limits<WordType>::digits = W) for W in {8, 16, 32, 64}, Bits = 3 * W + 5 and every pos below Bits."""
    rq = "etl::basic_bitset"
    rec = db.record(rq)
    if rec is None:
        chk.analysis_broken("WORDSPLIT: etl::basic_bitset no longer exists")
        return 0
    statics = dict((sm["n"], sm.get("init")) for sm in rec.get("statics", []) or [])
    helpers = {}
    for g in db.funcs:
        if g.get("record") == rq and g.get("body") is not None:
            st = g["body"].get("s") or []
            if len(st) == 1 and st[0].get("k") == "return" and st[0].get("e") is not None:
                helpers.setdefault(g["n"], g)

    class NM(Exception):
        pass

    M = (1 << 64) - 1

    def ev(e, env, depth=0):
        e = astx.strip_casts(e)
        while e is not None and e.get("k") in ("construct", "initlist") and len(e.get("a", [])) == 1:
            e = astx.strip_casts(e["a"][0])
        if e is None or depth > 6:
            raise NM("empty")
        iv = astx.int_value(e)
        if iv is not None:
            return iv
        k = e.get("k")
        if k == "ref":
            n = e["n"]
            if n in env:
                return env[n]
            if n == "digits" and "numeric_limits" in (e.get("qual") or ""):
                # the digits of the *word* type are W; those of a fixed type are what they are (dividing a position by
                # numeric_limits<size_t>::digits addresses 64-bit words whatever the word type is)
                m = re.search(r"numeric_limits\s*<\s*(.*?)\s*>\s*::\s*$", e.get("qual") or "")
                targ = (m.group(1) if m else "").replace("etl::", "").replace("const ", "").strip()
                fixed = {"size_t": 64, "unsigned long": 64, "unsigned long long": 64, "uint64_t": 64, "unsigned int": 32, "unsigned": 32,
                         "uint32_t": 32, "unsigned short": 16, "uint16_t": 16, "unsigned char": 8, "uint8_t": 8}
                if targ in fixed:
                    return fixed[targ]
                return env["$W"]
            if n in statics and statics[n] is not None and not e.get("qual"):
                return ev(statics[n], env, depth + 1)
            raise NM("name `%s`" % n)
        if k == "mem" and e.get("n") in statics and statics[e["n"]] is not None:
            return ev(statics[e["n"]], env, depth + 1)
        if k == "bin" and e["op"] in ("+", "-", "*", "/", "%", "&", "|", "^", "<<", ">>"):
            a, b = ev(e["l"], env, depth), ev(e["r"], env, depth)
            op = e["op"]
            if op in ("/", "%") and b == 0:
                raise NM("division by zero")
            r = {"+": lambda: a + b, "-": lambda: a - b, "*": lambda: a * b, "/": lambda: a // b, "%": lambda: a % b,
                 "&": lambda: a & b, "|": lambda: a | b, "^": lambda: a ^ b, "<<": lambda: a << min(b, 127),
                 ">>": lambda: a >> min(b, 127)}[op]()
            return r & M
        if k == "call":
            nm, q, recv, kind = astx.callee(e)
            if nm in helpers and (recv is None or astx.is_this(astx.strip_casts(recv))):
                g = helpers[nm]
                if len(g["params"]) == len(e["a"]):
                    sub = dict((kk, vv) for kk, vv in env.items() if kk.startswith("$"))
                    for p0, a in zip(g["params"], e["a"]):
                        sub[p0["n"]] = ev(a, env, depth)
                    return ev(g["body"]["s"][0]["e"], sub, depth + 1)
            if nm == "size" and not e["a"]:
                return env["$Bits"]
            raise NM("call `%s`" % astx.show(e, 30))
        raise NM(astx.show(e, 30))

    n = 0
    for f in db.funcs:
        if f.get("record") != rq or f.get("body") is None:
            continue
        pos_params = [p["n"] for p in f["params"] if p.get("n") == "pos"]
        if not pos_params:
            continue
        pos = pos_params[0]
        # local references to a word: auto& word = _words[X]
        word_locals = {}
        for st in astx.walk_stmts(f["body"]):
            if st.get("k") == "decl":
                for v in st["vars"]:
                    i0 = astx.strip_casts(v.get("init")) if v.get("init") is not None else None
                    if i0 is not None and i0.get("k") == "idx" and astx.show(astx.strip_casts(i0["b"]), 20).endswith("_words"):
                        word_locals[v["n"]] = i0["i"]
        consts = {}
        for st in astx.walk_stmts(f["body"]):
            if st.get("k") == "decl":
                for v in st["vars"]:
                    if v.get("init") is not None and v["n"] not in word_locals and "other" not in v:
                        consts[v["n"]] = v["init"]
        pairs = []
        for x in astx.all_exprs(f, into_lambdas=False):
            if x.get("k") not in ("call", "construct"):
                continue
            args = list(x.get("a") or [])
            if len(args) == 1 and args[0] is not None and args[0].get("k") == "initlist":
                args = args[0]["a"]
            if len(args) < 2:
                continue
            a0 = astx.strip_casts(args[0])
            X = None
            if a0 is not None and a0.get("k") == "idx" and astx.show(astx.strip_casts(a0["b"]), 20).endswith("_words"):
                X = a0["i"]
            elif a0 is not None and a0.get("k") == "ref" and a0.get("n") in word_locals:
                X = word_locals[a0["n"]]
            if X is None:
                continue
            Y = args[1]
            if not any(y.get("k") == "ref" and (y.get("n") == pos or y.get("n") in consts) for y in astx.walk_expr(Y)):
                continue
            pairs.append((x, X, Y))
        for x, X, Y in pairs:
            n += 1
            label = "%s :: `%s`" % (astx.sig(f), astx.show(x, 70))
            chk.instance("WORDSPLIT")
            bad = unknown = None
            judged = 0
            for W in (8, 16, 32, 64):
                bits = 3 * W + 5
                for p in range(bits):
                    env = {pos: p, "$W": W, "$Bits": bits, "Bits": bits}
                    try:
                        for cn, ce in consts.items():
                            try:
                                env[cn] = ev(ce, env)
                            except NM:
                                pass
                        gx, gy = ev(X, env), ev(Y, env)
                    except NM as ex:
                        unknown = str(ex)
                        break
                    judged += 1
                    if (gx, gy) != (p // W, p % W) and bad is None:
                        bad = (W, p, gx, gy)
                if unknown:
                    break
            if unknown:
                chk.obligation("WORDSPLIT", label, None)
                chk.unknown_instance("WORDSPLIT", label, "not evaluated: " + unknown)
                continue
            chk.obligation("WORDSPLIT", label, bad is None, evaluations=judged)
            if bad:
                W, p, gx, gy = bad
                chk.violation("WORDSPLIT", label, "wrong-bit-addressed",
                              "%s: with %d-bit words position %d is addressed as word %d, offset %d; it is word %d, offset %d"
                              % (astx.loc(f, x), W, p, gx, gy, p // W, p % W), {"where": astx.loc(f)})
    if n < 3:
        chk.analysis_broken("WORDSPLIT: only %d (word, offset) pairs found in basic_bitset (floor 3)" % n)
    return n


# ---- CSTRN: the (pointer, n) constructor measures the array only when no count is given --------------------------------------
def cstrn_rule(chk, db):
    """[bitset.cons]: bitset(const charT* str, n, zero, one) initialises from `n == npos ? basic_string(str) :
    basic_string(str, n)`: with a count the first n characters of the array are used, whatever they are (zero / one may be the
    null character). A view built from the pointer alone measures the array up to its first null; such a construction is
    allowed only in the arm of a `n == npos` test where no count was given."""
    n_inst = 0
    for f in db.funcs:
        if f.get("record") != "etl::bitset" or f["n"] != "<ctor>" or len(f["params"]) < 2:
            continue
        p0, p1 = f["params"][0], f["params"][1]
        if "*" not in p0.get("ty", "") or not re.search(r"size_type|size_t", p1.get("ty", "")):
            continue
        n_inst += 1
        construct = astx.sig(f)
        chk.instance("CSTRN")
        bad = []

        def npos_test(c):
            """+1 when c is `n == npos`, -1 for `n != npos`, 0 otherwise"""
            c = astx.strip_casts(c)
            if c is not None and c.get("k") == "bin" and c["op"] in ("==", "!="):
                sides = [astx.strip_casts(c["l"]), astx.strip_casts(c["r"])]
                if any(s is not None and s.get("k") == "ref" and s.get("n") == p1["n"] for s in sides) and \
                        any(s is not None and "npos" in astx.show(s, 60) for s in sides):
                    return 1 if c["op"] == "==" else -1
            return 0

        def visit(e, uncounted):
            if e is None or not isinstance(e, dict):
                return
            if e.get("k") == "cond":
                t = npos_test(e["c"])
                visit(e["c"], uncounted)
                visit(e["t"], uncounted or t > 0)
                visit(e["f"], uncounted or t < 0)
                return
            if e.get("k") in ("construct", "cast") and "basic_string_view" in (e.get("ty") or ""):
                args = e.get("a") if e.get("k") == "construct" else [e.get("e")]
                args = [a for a in (args or []) if a is not None]
                if len(args) == 1 and args[0].get("k") == "initlist":
                    args = args[0]["a"]
                if len(args) == 1:
                    a0 = astx.strip_casts(args[0])
                    if a0 is not None and a0.get("k") == "ref" and a0.get("n") == p0["n"] and not uncounted:
                        bad.append(e)
            for c in astx.children(e):
                visit(c, uncounted)

        exprs = [i.get("e") for i in (f.get("inits") or [])]
        if f.get("body") is not None:
            exprs += list(e for st in astx.walk_stmts(f["body"]) for e in astx.stmt_exprs(st))
        for e in exprs:
            visit(e, False)
        chk.obligation("CSTRN", construct, not bad)
        for e in bad[:1]:
            chk.violation("CSTRN", construct, "count-ignored", "%s: `%s` measures the array up to its first null character although a "
                          "count `%s` may have been given: with `zero` or `one` equal to the null character the first %s characters "
                          "are not the ones used" % (astx.loc(f, e), astx.show(e, 50), p1["n"], p1["n"]), {"where": astx.loc(f)})
    if n_inst < 1:
        chk.analysis_broken("CSTRN: bitset(CharT const*, n, zero, one) no longer exists")
    return n_inst


# ---- LITMASK: single-bit masks are built in the word type --------------------------------------------------------------------
def wholeops_rule(chk, db):
    """WHOLEOPS: the argument-less mutators of basic_bitset. `set()` / `reset()` leave a value that does not depend on the
    previous one: along every path, a statement that READS the words (`flip()`, a transform over `_words`, a compound
    assignment to a word) is preceded by writes of constants that cover every word (`fill(begin, end, c)`, or
    `fill(begin, prev(end), c)` plus an assignment to the last word). `flip()` is the opposite: its result depends on every
    word, so it never stores a constant into a word (`fill`, `_words[i] = c` with c not reading the word)."""
    from ..rules import sets as _SPW
    rq = "etl::basic_bitset"
    n = 0

    def reads_words(e):
        return any((y.get("k") == "mem" and y.get("n") == "_words") for y in astx.walk_expr(e, into_lambdas=True))

    def classify(x):
        """'const-all' | 'const-head' | 'const-last' | 'const-some' | 'read' | None for one expression statement"""
        x = astx.strip_casts(x)
        if x is None:
            return None
        if x.get("k") == "call":
            nm = astx.callee(x)[0]
            a = x.get("a") or []
            if nm in ("fill", "fill_n") and len(a) == 3 and reads_words(a[0]) and not reads_words(a[2]):
                hi = astx.show(astx.strip_casts(a[1]), 60)
                if re.search(r"prev\s*\(", hi) or re.search(r"end\(\)\s*-\s*1", hi):
                    return "const-head"
                if re.search(r"_words\.c?end\(\)$", hi.strip("() ")) or hi.strip().endswith("end()") or hi.strip().endswith("end())"):
                    return "const-all"
                return "const-some"
            if nm in ("transform", "for_each", "flip", "generate") or (nm in ("fill", "copy") and any(reads_words(y) for y in a[2:])):
                return "read" if (nm == "flip" or any(reads_words(y) for y in a)) else None
            if nm in ("set", "reset") and not a:
                return "const-all"
            return "read" if any(reads_words(y) for y in a) and nm not in ("begin", "end", "size") else None
        if x.get("k") == "bin" and x.get("op", "").endswith("=") and x["op"] not in ("==", "!=", "<=", ">="):
            l = astx.strip_casts(x["l"])
            if l is not None and l.get("k") == "idx" and reads_words(l):
                if x["op"] == "=" and not reads_words(x["r"]):
                    idx = astx.show(astx.strip_casts(l["i"]), 40)
                    return "const-last" if re.search(r"num_words\s*-\s*1|size\(\)\s*-\s*1", idx) else "const-some"
                return "read"
        return None

    for f in db.funcs:
        if f.get("record") != rq or f["n"] not in ("set", "reset", "flip") or f["params"] or f.get("body") is None:
            continue
        n += 1
        construct = astx.sig(f)
        chk.instance("WHOLEOPS")
        bad = None
        for path in _SPW.paths(f["body"]):
            head = last = allw = False
            for ev in path:
                kind, node = ev[0], ev[1]
                e = None
                if kind == "expr":
                    e = node.get("e") if node.get("k") == "expr" else node
                elif kind == "ret":
                    e = node.get("e") if isinstance(node, dict) and node.get("k") == "return" else node
                if e is None:
                    continue
                c = classify(e)
                if f["n"] in ("set", "reset"):
                    if c == "const-all":
                        allw = True
                    elif c == "const-head":
                        head = True
                    elif c == "const-last":
                        last = True
                    elif c == "read" and not (allw or (head and last)) and bad is None:
                        bad = (e, "`%s` reads the previous words before every word has been overwritten: the value `%s()` leaves then depends on "
                               "what the set held (the whole-set mutators are idempotent: `set().set()` is `set()`)" % (astx.show(e, 50), f["n"]))
                else:
                    if c in ("const-all", "const-head", "const-last", "const-some") and bad is None:
                        bad = (e, "`%s` stores a value that does not depend on the word it replaces: `flip()` inverts every word, so "
                               "`flip().flip()` restores the set" % astx.show(e, 50))
        chk.obligation("WHOLEOPS", construct, bad is None)
        if bad:
            chk.violation("WHOLEOPS", construct, "state-dependence", "%s: %s" % (astx.loc(f, bad[0]), bad[1]), {"where": astx.loc(f)})
    if n < 3:
        chk.analysis_broken("WHOLEOPS: set() / reset() / flip() of basic_bitset not all found (%d of 3)" % n)
    return n


def litmask_rule(chk, db, prefixes=("_bitset/",)):
    """A mask `1 << offset` / `1U << offset` is computed in int / unsigned int whatever the word type is: for 64-bit words an
    offset of 32 or more is out of range for the shift (x86 wraps it to offset - 32), and `1 << 31` sign-extends when it is
    widened. In the bitset's own headers every shift whose left operand is an integer literal of type int or unsigned int and
    whose count is not a literal is a mask of this kind; the word-typed forms are `WordType(1) << offset` and the bit
    primitives (set_bit / test_bit / flip_bit). Expected count on the library: zero (control in fixtures/arith_pos.hpp)."""
    n = 0
    for f in db.funcs:
        if f.get("body") is None or not any(f["file"].startswith(p) for p in prefixes):
            continue
        for x in litmask_sites(f):
            n += 1
            label = "%s :: `%s`" % (astx.sig(f), astx.show(x, 50))
            chk.instance("LITMASK")
            chk.obligation("LITMASK", label, False)
            chk.violation("LITMASK", label, "mask-built-in-int", "%s: `%s` shifts an `%s` literal by a run-time offset: the mask is %d bits wide "
                          "whatever the word type, so bits at offset >= 32 of a 64-bit word are not addressed (and `1 << 31` sign-extends)"
                          % (astx.loc(f, x), astx.show(x, 50), x["l"].get("ty") or "int", 32), {"where": astx.loc(f)})
    # positive / negative control
    import os
    fx_path = os.path.join(D.VERIF, "fixtures", "arith_pos.hpp")
    fx = D.load_source('#include "%s"\n' % fx_path, root=os.path.dirname(fx_path) + "/", tag="fixture-arith")
    fxf = dict((g["n"], g) for g in fx.funcs)
    if not ("narrow_mask" in fxf and litmask_sites(fxf["narrow_mask"])):
        chk.analysis_broken("LITMASK: the positive control fixture::narrow_mask was not reported")
    if "word_mask" not in fxf or litmask_sites(fxf["word_mask"]):
        chk.analysis_broken("LITMASK: the negative control fixture::word_mask was reported")
    return n


PROMOTED_ONLY = re.compile(r"is_same(_v)?\s*<.*decltype\s*\(\s*\+")


def litmask_sites(f):
    """shifts of an int / unsigned literal by a run-time count; not those in the branch that only types subject to integral
    promotion reach (the else-branch of `is_same_v<T, decltype(+x)>`): there the operand is promoted to int anyway"""
    from ..rules import extra10 as _X10

    def pred(x):
        return x.get("k") == "bin" and x.get("op") in ("<<", "<<=") and (x.get("l") or {}).get("k") == "int" and \
            (x["l"].get("ty") or "int") in ("int", "unsigned int") and astx.strip_casts(x["r"]) is not None and \
            astx.strip_casts(x["r"]).get("k") != "int"
    return [x for x, conds in _X10.guarded_nodes(f, pred) if not any(PROMOTED_ONLY.search(c) for c in _X10.negative_conditions(conds))]
