"""Reporting: violations, known findings, evidence files, exit codes (DESIGN.md §7)."""
import json
import os
import sys
import time

VERIF = os.path.dirname(os.path.dirname(os.path.abspath(__file__)))
# self-tests and seeded-change runs analyse a scratch tree (TETL_REPO) and must not overwrite the evidence of /repo
OUT = os.environ.get("TETL_VERIF_OUT", VERIF)
KNOWN = os.path.join(VERIF, "known_findings.json")


def load_known():
    if not os.path.exists(KNOWN):
        return []
    with open(KNOWN) as f:
        data = json.load(f)
    out = []
    for k in data.get("findings", []):
        if "constructs" in k:
            for c in k["constructs"]:
                e = dict(k)
                del e["constructs"]
                e["construct"] = c
                out.append(e)
        else:
            out.append(k)
    return out


class Check:
    def __init__(self, prop, tier, replay=None):
        self.prop = prop
        self.tier = tier
        self.t0 = time.time()
        self.violations = []
        self.known_hits = []
        self.notes = []
        self.unknown = []
        self.broken = []
        self.samples = []
        self.counts = {}
        self.rule_instances = {}
        self.obligations = 0
        self.discharged = 0
        self.nontrivial = set()
        self.evaluations = 0
        self.known = [k for k in load_known() if k.get("property") == prop and k.get("status", "known") == "known"]
        self.known_index = set((k.get("rule"), k.get("construct"), k.get("witness_class")) for k in self.known)
        self.known_seen = set()
        self.seed = int(os.environ.get("VERIF_SEED", "0") or 0)
        self.replay = replay
        self.replay_filter = None
        if replay:
            with open(replay) as f:
                r = json.load(f)
            self.replay_filter = (r.get("rule"), r.get("construct"))
        self.report_dir = os.path.join(OUT, "reports", prop)
        self._nrep = 0
        self.assumptions = []
        self.extra = {}

    # ---- bookkeeping -------------------------------------------------------------------------------
    def instance(self, rule, n=1):
        self.rule_instances[rule] = self.rule_instances.get(rule, 0) + n

    def obligation(self, rule, construct, ok, nontrivial=True, evaluations=1):
        """One decided obligation. ok: True (proved) / False (violation reported separately) / None (unknown)."""
        self.obligations += 1
        self.evaluations += evaluations
        if ok is True:
            self.discharged += 1
        if nontrivial:
            self.nontrivial.add((rule, construct))

    def sample(self, s):
        if len(self.samples) < 12:
            self.samples.append(s)

    def note(self, text):
        self.notes.append(text)

    def unknown_instance(self, rule, construct, why):
        self.unknown.append({"rule": rule, "construct": construct, "why": why})

    def analysis_broken(self, why):
        self.broken.append(why)

    # ---- violations --------------------------------------------------------------------------------
    def violation(self, rule, construct, wclass, message, details=None):
        """Report REFUTED/ABSENT. Matches the committed known-findings list; never writes it."""
        if self.replay_filter and (rule, construct) != self.replay_filter:
            return
        if (rule, construct, wclass) in self.known_index:
            if (rule, construct, wclass) not in self.known_seen:
                self.known_seen.add((rule, construct, wclass))
                self.known_hits.append((rule, construct, wclass, message))
            return
        if (rule, construct, wclass) in self.known_seen:
            return
        self.known_seen.add((rule, construct, wclass))
        rec = {"property": self.prop, "rule": rule, "construct": construct, "witness_class": wclass,
               "message": message, "details": details or {}}
        self.violations.append(rec)

    # ---- finish ------------------------------------------------------------------------------------
    def finish(self, explanation, trusted_base, checker_cmd, exhaustive=False, rule_text=""):
        wall = time.time() - self.t0
        os.makedirs(os.path.join(OUT, "evidence"), exist_ok=True)
        # report files
        paths = []
        if not self.replay and os.path.isdir(self.report_dir):
            for old in os.listdir(self.report_dir):
                if old.endswith(".json"):
                    os.unlink(os.path.join(self.report_dir, old))
        if self.violations:
            os.makedirs(self.report_dir, exist_ok=True)
            for i, v in enumerate(self.violations):
                p = os.path.join(self.report_dir, "%d.json" % i)
                with open(p, "w") as f:
                    json.dump(v, f, indent=1, default=str)
                paths.append(p)
        cov = {
            "explanation": explanation,
            "obligations": self.obligations,
            "discharged": self.discharged,
            "evaluations": max(self.evaluations, self.obligations),
            "distinct_nontrivial": len(self.nontrivial),
            "rule": rule_text or "one case per (rule, construct) obligation decided on this run; non-trivial = the "
                                 "decision involved at least one guard, fact, typestate transition or compiler "
                                 "obligation (counted as distinct (rule, construct) pairs)",
            "samples": self.samples or ["(no obligations)"],
            "rule_instances": self.rule_instances,
            "unknown": len(self.unknown),
            "unknown_list": self.unknown[:200],
            "known_findings_matched": [{"rule": h[0], "construct": h[1], "witness_class": h[2]} for h in self.known_hits],
            "checker_cmd": checker_cmd,
            "trusted_base": trusted_base,
            "exhaustive": exhaustive,
            "notes": self.notes[:100],
        }
        cov.update(self.extra)
        ev = {
            "property_id": self.prop,
            "tier": self.tier,
            "seed": self.seed,
            "level": "other",
            "coverage": cov,
            "assumptions": self.assumptions,
            "wall_s": round(wall, 3),
            "violations": len(self.violations),
        }
        if self.broken:
            ev["coverage"]["analysis_broken"] = self.broken
        if not self.replay:
            with open(os.path.join(OUT, "evidence", self.prop + ".json"), "w") as f:
                json.dump(ev, f, indent=1, default=str)
        # console
        print("[%s] tier=%s obligations=%d discharged=%d unknown=%d instances=%s wall=%.1fs" % (
            self.prop, self.tier, self.obligations, self.discharged, len(self.unknown),
            json.dumps(self.rule_instances, sort_keys=True), wall))
        for n in self.notes[:40]:
            print("NOTE: " + n)
        for u in self.unknown[:40]:
            print("NOTE: unknown %s %s: %s" % (u["rule"], u["construct"], u["why"]))
        for h in self.known_hits:
            print("KNOWN-FINDING: property=%s %s %s [%s]: %s" % (self.prop, h[0], h[1], h[2], h[3]))
        if self.broken:
            for b in self.broken:
                print("ANALYSIS-BROKEN: " + b)
            sys.stdout.flush()
            sys.exit(2)
        for v, p in zip(self.violations, paths):
            print("  %s %s [%s]: %s" % (v["rule"], v["construct"], v["witness_class"], v["message"]))
            print("VIOLATION property=%s replay=%s" % (self.prop, p))
        sys.stdout.flush()
        sys.exit(1 if self.violations else 0)
