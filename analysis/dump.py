"""debug helper: python3 -m analysis.dump <qualified-name> [config]"""
import sys
from . import db as D, prog as P, terms as T, astx

def show_prog(prog, ind=0):
    pad = "  " * ind
    for nd in prog:
        k = nd[0]
        if k == "guard":
            print(pad + "GUARD %s   [%s:%s]" % (T.show(nd[1]), nd[2]["func"], nd[2]["line"]))
        elif k == "oblige":
            print(pad + "OBLIGE %s   [%s:%s] %s" % (T.show(nd[1]), nd[2]["func"], nd[2]["line"], nd[2].get("what","")))
        elif k == "effect":
            print(pad + "EFFECT %s %s %s [%s:%s]" % (nd[1], nd[2].get("what"), nd[2].get("target", ""), nd[2]["func"], nd[2]["line"]))
        elif k == "branch":
            print(pad + "IF %s" % T.show(nd[1])); show_prog(nd[2], ind + 1)
            if nd[3]:
                print(pad + "ELSE"); show_prog(nd[3], ind + 1)
        elif k == "loop":
            print(pad + "LOOP first: %s" % T.show(nd[1])); show_prog(nd[2], ind + 1)
            print(pad + "LOOP general: %s fresh=%s" % (T.show(nd[3]), nd[5])); show_prog(nd[4], ind + 1)
        elif k == "inline":
            print(pad + "CALL %s" % nd[1]); show_prog(nd[2], ind + 1)
        elif k == "ret":
            print(pad + "RET")
        else:
            print(pad + str(nd[:2]))

if __name__ == "__main__":
    d = D.load(sys.argv[2] if len(sys.argv) > 2 else "checks")
    for f in d.by_q.get(sys.argv[1], []):
        print("=====", astx.sig(f), f["file"], f["line"])
        b = P.Builder(d)
        prog, ctx = b.build(f)
        show_prog(prog)
        for n in b.notes: print("NOTE", n)
