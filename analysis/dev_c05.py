import sys, json
from . import db as D, astx
from .props import c05
from .rules import guard as G
d = D.load(sys.argv[2] if len(sys.argv) > 2 else "checks")
table = json.load(open(c05.SPEC))["entries"]
for ent in table:
    if sys.argv[1] not in ent["id"]:
        continue
    fs = c05.select(d, ent)
    print("##", ent["id"], len(fs), ent["req"])
    for f in fs:
        f2 = f
        if ent.get("sorts"):
            f2 = dict(f); f2["params"] = [dict(p) for p in f["params"]]
            for i, so in ent["sorts"].items():
                f2["params"][int(i)]["ty"] = {"p": "const_iterator", "u": "size_t", "s": "ptrdiff_t"}[so]
        r = G.check_operation(d, f2, ent["req"], kind=ent.get("kind", "A"), static_conds=ent.get("static"))
        print("  ", astx.sig(f), "models", r.models, "variants", r.variants)
        print("     G1", r.g1, r.g1_witness)
        print("     G2", r.g2, r.g2_witness)
        print("     G3", r.g3, r.g3_witness)
        for n in r.notes[:3]: print("     note", n)
